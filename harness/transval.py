"""Translator validation: what harness/translate.py emitted (run by the native `xgdriver`)
against the Python function it was read from, on argument grids.

The translator is part of the trusted base of every property whose tie is "translator"; this is
its differential test, run on every check that regenerates a module.  A disagreement is a broken
obligation of the *machinery* (reported as such, never as a violation of the property)."""
import itertools
import os
import subprocess
import urllib.parse

from bodies import enc
from common import LEAN_DIR, lake_build

GDRIVER = os.path.join(LEAN_DIR, ".lake", "build", "bin", "xgdriver")


def dec(field):
    import urllib.parse
    if field == "~":
        return None
    return urllib.parse.unquote(field[1:], errors="strict")


def _strs():
    return ["", "/", "a", "a/", "//", "/a/b", "/a/b/", "é/", "a//", "/é", " ", "/ ", "a b/"]


def grid_etag():
    tags = ['"aaa"', '"bbb"']
    hs = set(tags + ["*", "aaa", 'W/"aaa"', "", " ", ",", ' "aaa" ', '"aaa",,"bbb"', "**", "* ", " *", '"a,aa"'])
    for a, b in itertools.product(tags + ["*"], repeat=2):
        for sep in [",", ", ", " , "]:
            hs.add(a + sep + b)
    return [(h, c) for h in sorted(hs) for c in [None, '"aaa"', '"bbb"', "aaa", "", "*"]]


def grid_h2p():
    scripts = ["", "/", "/dav", "/dav/", "/a/b", "/a/b//", "//", "/é"]
    hrefs = ["", "/", "/dav", "/dav/", "/dav/x", "/david", "/dav//x", "x", "dav/x", "/a/b", "/a/b/c", "/a/bc",
             "/é", "/é/x", "/éx", "//", "//x", "/dav/../x", "/DAV/x", "/dav/dav/x", " /dav/x", "/a", "/a/", "/a/b/"]
    return list(itertools.product(scripts, hrefs))


def grid_tags():
    return ["", "abc", '"abc"', '"', '""', 'a"b', '"a', 'a"', '""a""', ' "a" ', "3f2a9c", "é"]


def grid_mapfs():
    roots = ["/srv/data", "/srv/data/", "/", "/srv//data"]
    rels = ["", "/", "a", "/a", "/a/b", "/a/../b", "/../x", "/a/../../x", "//a", "///a", "/./a", "/a/./b/", "..", "../..",
            "/..", "/a//b", "/a/b/../../..", "/%2e%2e/x", "/é/../x", "/a/..b", "/...", "/a/.../b", "/./..//x"]
    return list(itertools.product(roots, rels))


def grid_match():
    ss = ["", "a", "ab", "ba", "abc", "bc", "b", "A", "é", "aé"]
    ks = ["equals", "contains", "starts-with", "ends-with", "other", ""]
    return [(a, b, k) for a in ss for b in ss for k in ks]


def grid_collate():
    names = ["i;ascii-casemap", "i;octet", "i;unicode-casemap", "i;unknown"]
    ss = ["", "a", "A", "ab", "AB", "é", "É", "aé", "AÉ", "ß", "b"]
    ks = ["equals", "contains", "starts-with", "ends-with", "other"]
    return [(n, a, b, k) for n in names for a in ss for b in ss for k in ks]


def grid_unescape():
    alpha = ["a", "\\", ",", "n", "N", ";", "\n", " ", "é"]
    out = [""]
    for n in (1, 2, 3):
        for t in itertools.product(alpha, repeat=n):
            out.append("".join(t))
    out += ["Lunch\\, with Bob", "x\\,y,z", "a\\\\", "a\\", "\\\\n", "a,b\\;c\\nd", ",,", "a\\N\\n"]
    return out


def _timerange_cases():
    """the four RFC 4791 section 9.9 functions on stand-in components (objects with `.get(NAME)` whose
    values have a `.dt`): every presence pattern x value kind x a small grid of instants"""
    import datetime as dtm
    import random
    import types
    from xandikos import icalendar as xi
    UTC = dtm.timezone.utc
    DAY = 86400
    epoch = dtm.datetime(2020, 1, 1, tzinfo=UTC)

    def val(code):                     # "~" | "D<k>" | "T<k>"  (k in seconds from the epoch, D: multiple of a day)
        if code == "~":
            return None
        k = int(code[1:])
        if code[0] == "D":
            return types.SimpleNamespace(dt=(epoch + dtm.timedelta(seconds=k)).date())
        return types.SimpleNamespace(dt=epoch + dtm.timedelta(seconds=k))

    def tzify(d):
        if not isinstance(d, dtm.datetime):
            d = dtm.datetime.combine(d, dtm.time())
        if d.tzinfo is None:
            d = d.replace(tzinfo=UTC)
        return d

    class Comp(dict):
        pass
    rng = random.Random(7)
    inst = [0, DAY // 2, DAY, DAY + 3600, 2 * DAY, 3 * DAY]
    codes = ["~"] + ["T%d" % i for i in inst[:5]] + ["D%d" % i for i in (0, DAY, 2 * DAY)]
    durs = ["~", "0", "3600", str(DAY), "-3600"]
    fbs = ["-", "0:3600", "%d:%d" % (DAY, DAY + 3600), "0:3600,%d:%d" % (2 * DAY, 3 * DAY)]
    out = []
    funcs = {"vevent": xi.apply_time_range_vevent, "vjournal": xi.apply_time_range_vjournal,
             "vtodo": xi.apply_time_range_vtodo, "vfreebusy": xi.apply_time_range_vfreebusy}
    for kind, fn in funcs.items():
        for _ in range(700):
            st, en = sorted(rng.sample(inst, 2))
            c = {k: rng.choice(codes) if rng.random() < 0.6 else "~" for k in ("DTSTART", "DTEND", "DUE", "COMPLETED", "CREATED")}
            dur = rng.choice(durs) if rng.random() < 0.4 else "~"
            fb = rng.choice(fbs) if kind == "vfreebusy" else "-"
            comp = Comp()
            for k, code in c.items():
                if code != "~":
                    comp[k] = val(code)
            if dur != "~":
                comp["DURATION"] = types.SimpleNamespace(dt=dtm.timedelta(seconds=int(dur)))
            if fb != "-":
                ps = [types.SimpleNamespace(start=epoch + dtm.timedelta(seconds=int(a)), end=epoch + dtm.timedelta(seconds=int(b)))
                      for a, b in (p.split(":") for p in fb.split(","))]
                comp["FREEBUSY"] = ps if len(ps) > 1 else ps[0]
            s_dt, e_dt = epoch + dtm.timedelta(seconds=st), epoch + dtm.timedelta(seconds=en)
            want = _pybool(lambda: fn(s_dt, e_dt, comp, tzify))
            line = "tr %s %d %d %s %s %s %s %s %s %s" % (kind, st, en, c["DTSTART"], c["DTEND"], c["DUE"], c["COMPLETED"],
                                                       c["CREATED"], dur, fb)
            out.append(("icalendar.apply_time_range_" + kind, line, want, (kind, st, en, c, dur, fb)))
    return out


def _traverse_cases():
    """webdav.traverse_resource (an async generator) on stand-in resource trees of height <= 2"""
    import asyncio
    import random
    from xandikos import webdav
    rng = random.Random(23)
    q = lambda s: urllib.parse.quote(s, safe="")

    class R:
        def __init__(self, coll, members=()):
            self.resource_types = [webdav.COLLECTION_RESOURCE_TYPE] if coll else []
            self._m = list(members)

        def members(self):
            return list(self._m)
    names = ["a.ics", "b c.ics", "x#y.vcf", "sub", "é", "a:b.vcf", "q?"]
    out = []
    for _ in range(250):
        kind = rng.random()
        if kind < 0.15:
            enc_t, root = "F", R(False)
        elif kind < 0.25:
            enc_t, root = "C", R(True)
        else:
            ms, encs = [], []
            for n in rng.sample(names, rng.randint(1, 4)):
                k = rng.random()
                if k < 0.5:
                    ms.append((n, R(False)))
                    encs.append(q(n) + "/F")
                elif k < 0.7:
                    ms.append((n, R(True)))
                    encs.append(q(n) + "/C")
                else:
                    gs = rng.sample(names, rng.randint(1, 3))
                    ms.append((n, R(True, [(g, R(False)) for g in gs])))
                    encs.append(q(n) + "/C(" + "+".join(q(g) for g in gs) + ")")
            enc_t, root = "C<" + ";".join(encs) + ">", R(True, ms)
        href = rng.choice(["/user/cal", "/user/cal/", "/dav/x y", "/", ""])
        depth = rng.choice(["0", "1", "1", "infinity", "2", ""])

        async def run():
            return [(h, r) async for h, r in webdav.traverse_resource(root, href, depth)]
        try:
            rows = asyncio.run(run())
            want = "=" + ",".join("%s:%s" % (q(h), "C" if r.resource_types else "F") for h, r in rows)
        except Exception as e:   # noqa: BLE001
            want = "raise:" + type(e).__name__
        out.append(("webdav.traverse_resource", "tv %s %s %s" % (enc_t, enc(href), enc(depth)), want, (enc_t, href, depth)))
    return out


def _pybool(f):
    try:
        return "1" if f() else "0"
    except Exception as e:           # noqa: BLE001
        return "raise:" + type(e).__name__


def cases(modules):
    """-> list of (function name, protocol line, expected output text, printable arguments)"""
    out = []
    if "Etag" in modules:
        from xandikos.webdav import etag_matches
        for h, c in grid_etag():
            out.append(("webdav.etag_matches", "etag %s %s" % (enc(h), enc(c)), _pybool(lambda: etag_matches(h, c)), (h, c)))
    if "Href" in modules:
        out.extend(_traverse_cases())
        from xandikos.webdav import ensure_trailing_slash, href_to_path
        for s in _strs():
            out.append(("webdav.ensure_trailing_slash", "ets %s" % enc(s), enc(ensure_trailing_slash(s)), (s,)))
        for sc, h in grid_h2p():
            out.append(("webdav.href_to_path", "h2p %s %s" % (enc(sc), enc(h)), enc(href_to_path({"SCRIPT_NAME": sc}, h)), (sc, h)))
    if "StrongEtag" in modules:
        from xandikos.web import create_strong_etag, extract_strong_etag
        for t in grid_tags():
            out.append(("web.create_strong_etag", "cse %s" % enc(t), enc(create_strong_etag(t)), (t,)))
        for t in grid_tags() + [None]:
            out.append(("web.extract_strong_etag", "xse %s" % enc(t), enc(extract_strong_etag(t)), (t,)))
    if "Unescape" in modules:
        from xandikos.icalendar import _unescape_text
        for t in grid_unescape():
            for sp in (False, True):
                try:
                    want = "=" + ",".join(urllib.parse.quote(p, safe="") for p in _unescape_text(t, sp))
                except Exception as e:   # noqa: BLE001
                    want = "raise:" + type(e).__name__
                out.append(("icalendar._unescape_text", "unesc %s %s" % (enc(t), "1" if sp else "0"), want, (t, sp)))
    if "Wellknown" in modules:
        from xandikos.wsgi_helpers import WellknownRedirector
        wks = ["/.well-known/caldav", "/.well-known/carddav"]
        pairs = set()
        for wk in wks:
            for k in range(len(wk) + 1):
                pairs.add((wk[:k], wk[k:]))
            pairs |= {("", wk + "/"), ("", "/" + wk), ("/dav", wk), ("", wk + "/.."), ("", wk.replace("known/", "known//")),
                      ("", "/x/.." + wk), (wk, "/"), ("", wk.upper()), ("", wk + "x")}
        pairs |= {("", "/"), ("/dav", "/user/"), ("", "/.well-known"), ("", "/.well-known/"), ("", "/.well-known/other"), ("", "")}
        for sc, pi in sorted(pairs):
            hit = {}

            def inner(environ, start_response):
                hit["inner"] = True
                return []

            def sr(status, headers):
                hit["status"] = status
                hit["headers"] = headers
            try:
                WellknownRedirector(inner, "/root/")({"SCRIPT_NAME": sc, "PATH_INFO": pi}, sr)
                want = "1" if (not hit.get("inner") and str(hit.get("status", "")).startswith("30")
                               and ("Location", "/root/") in hit.get("headers", [])) else "0"
            except Exception as e:   # noqa: BLE001
                want = "raise:" + type(e).__name__
            out.append(("wsgi_helpers.WellknownRedirector.__call__", "wk %s %s" % (enc(sc), enc(pi)), want, (sc, pi)))
    if "IterChanges" in modules:
        import random
        from xandikos.store.git import GitStore
        rng = random.Random(11)
        q = lambda s: urllib.parse.quote(s, safe="")

        def listing(names):
            return [(n, "text/vcard" if n.endswith(".vcf") else "text/calendar", rng.choice(["e1", "e2", "e3"])) for n in names]
        pool = ["a.ics", "b.ics", "c d.ics", "k.vcf", ".draft.ics", "z:é.ics"]
        for _ in range(400):
            olds = listing(sorted(rng.sample(pool, rng.randint(0, len(pool)))))
            news = listing(sorted(rng.sample(pool, rng.randint(0, len(pool)))))
            if rng.random() < 0.05 and olds and news:          # the assertion: same name, another content type
                news[0] = (olds[0][0], "application/octet-stream", news[0][2])
                news = [x for k, x in enumerate(news) if k == 0 or x[0] != news[0][0]]

            class Stub:
                def iter_with_etag(self, ctag, _o=olds, _n=news):
                    return iter(_o if ctag == "old" else _n)
            try:
                rows = list(GitStore.iter_changes(Stub(), "old", "new"))
                want = "=" + ",".join("%s:%s:%s:%s" % (q(n), q(ct), "~" if o is None else q(o), "~" if e is None else q(e))
                                      for n, ct, o, e in rows)
            except Exception as e:   # noqa: BLE001
                want = "raise:" + type(e).__name__
            enc_l = lambda l: ",".join("%s:%s:%s" % (q(a), q(b), q(c)) for a, b, c in l) or "-"
            out.append(("git.GitStore.iter_changes", "ic %s %s" % (enc_l(olds), enc_l(news)), want, (olds, news)))
    if "Multiget" in modules:
        import random
        from xandikos.webdav import _get_resources_by_hrefs, Backend
        rng = random.Random(5)
        q = lambda s: urllib.parse.quote(s, safe="")

        class B(Backend):
            def get_resource(self, relpath):
                return None if "missing" in relpath else relpath
        pool = ["/dav/a.ics", "/dav/a.ics", "/dav/b c.ics", "/dav", "/dav/", "/david/a.ics", "/dav//a.ics", "/x", "", "a.ics",
                "/dav/missing.ics", "/dav/sub/missing/x", "/dav/é.ics", "/", "//dav/a.ics"]
        for _ in range(300):
            script = rng.choice(["/dav", "/dav/", "", "/", "/d"])
            hrefs = [rng.choice(pool) for _ in range(rng.randint(0, 7))]
            try:
                rows = list(_get_resources_by_hrefs(B(), {"SCRIPT_NAME": script}, hrefs))
                want = "=" + ",".join("%s:%s" % (q(h), "~" if r is None else q(r)) for h, r in rows)
            except Exception as e:   # noqa: BLE001
                want = "raise:" + type(e).__name__
            out.append(("webdav._get_resources_by_hrefs", "mg %s %s" % (enc(script), " ".join(enc(h) for h in hrefs)), want,
                        (script, hrefs)))
    if "FindKeys" in modules:
        import collections
        import random
        from xandikos.store.index import AutoIndexManager
        rng = random.Random(13)
        q = lambda s: urllib.parse.quote(s, safe="")
        pool = ["C=VCALENDAR", "C=VCALENDAR/C=VEVENT", "P=SUMMARY", "P=DTSTART", "P=DTEND", "P=DURATION", "k;é"]
        for _ in range(500):
            avail = rng.sample(pool, rng.randint(0, 4))
            th = rng.choice([0, 1, 2, 5])
            desired = {k: rng.randint(0, 6) for k in rng.sample(pool, rng.randint(0, 4))}
            groups = [[rng.choice(pool) for _ in range(rng.randint(0, 3))] for _ in range(rng.randint(0, 4))]

            class Idx:
                def __init__(self):
                    self.reset_with = None

                def available_keys(self):
                    return list(avail)

                def reset(self, keys):
                    self.reset_with = keys
            idx = Idx()
            mgr = AutoIndexManager(idx, th)
            for k, n in desired.items():
                mgr.desired[k] = n
            try:
                res = mgr.find_present_keys(groups)
                all_keys = list(dict.fromkeys([k for g in groups for k in g] + avail))
                want = "res=%s reset=%s desired=%s" % (
                    "~" if res is None else ",".join(q(k) for k in res),
                    "~" if idx.reset_with is None else ",".join(sorted(q(k) for k in idx.reset_with)),
                    ",".join("%s:%d" % (q(k), mgr.desired[k]) for k in all_keys if k in mgr.desired))
            except Exception as e:   # noqa: BLE001
                want = "raise:" + type(e).__name__
            line = "fpk %s %d %s %s" % (",".join(q(k) for k in avail) or "-", th,
                                        ",".join("%s:%d" % (q(k), n) for k, n in desired.items()) or "-",
                                        "|".join(",".join(q(k) for k in g) or "-" for g in groups) or "-")
            out.append(("index.AutoIndexManager.find_present_keys", line, want, (avail, th, desired, groups)))
    if "StoreGate" in modules:
        import random
        from xandikos.store.git import GitStore
        from xandikos.store.vdir import VdirStore
        rng = random.Random(17)
        q = lambda s: urllib.parse.quote(s, safe="")
        uids, names, etags = ["u1", "u2", "U1", "u 3"], ["a.ics", "b.ics", "c d.ics"], ["e1", "e2", "e3"]
        for _ in range(600):
            kind = rng.choice(["git", "vdir"])
            cls = GitStore if kind == "git" else VdirStore
            u2f = {u: (rng.choice(names), rng.choice(etags)) for u in rng.sample(uids, rng.randint(0, 3))}
            cur = rng.choice([None] + etags)
            uid = rng.choice([None] + uids)
            name = rng.choice(names)
            rep = rng.choice([None, None] + etags)

            class Stub:
                _check_for_duplicate_uids = True
                _uid_to_fname = dict(u2f)

                def _scan_uids(self):
                    pass

                def _get_etag(self, n, _c=cur):
                    if _c is None:
                        raise KeyError(n)
                    return _c
            enc_m = ",".join("%s:%s:%s" % (q(u), q(n), q(e)) for u, (n, e) in u2f.items()) or "-"
            try:
                r = cls._check_duplicate(Stub(), uid, name, rep)
                want = "ok " + enc(r)
            except Exception as e:   # noqa: BLE001
                want = "raise:" + type(e).__name__
            out.append(("store._check_duplicate (%s)" % kind, "cd %s %s %s %s %s %s" % (kind, enc_m, enc(cur), enc(uid), enc(name), enc(rep)),
                        want, (kind, u2f, cur, uid, name, rep)))
            st = Stub()
            cls._forget_uid(st, name, uid)
            want2 = "=" + ",".join("%s:%s" % (q(u), "%s:%s" % (q(st._uid_to_fname[u][0]), q(st._uid_to_fname[u][1])) if u in st._uid_to_fname else "~:~")
                                   for u in uids)
            out.append(("store._forget_uid (%s)" % kind, "fu %s %s %s %s %s" % (kind, enc_m, enc(name), enc(uid), ",".join(q(u) for u in uids)),
                        want2, (kind, u2f, name, uid)))
    if "Gates" in modules:
        import ast
        import translate
        from xandikos.webdav import etag_matches as real_etag_matches
        hs = [None, "", "*", '"aaa"', '"bbb"', '"aaa", "bbb"', "aaa", 'W/"aaa"', " ", '"bbb",*']
        curs = [None, '"aaa"', '"bbb"']
        for g in translate.GATES:
            region, hdrs, tests = translate.gate_region(g)
            # the statements of the gate, as they stand in the handler, run as a function of their own
            fn = ast.FunctionDef(name="gate", args=ast.arguments(posonlyargs=[], args=[ast.arg("request"), ast.arg("current_etag")],
                                 kwonlyargs=[], kw_defaults=[], defaults=[]),
                                 body=list(region) + [ast.Return(ast.Constant("pass"))], decorator_list=[], type_params=[])
            mod = ast.fix_missing_locations(ast.Module(body=[fn], type_ignores=[]))
            ns = {"etag_matches": real_etag_matches, "Response": lambda **kw: "refused"}
            exec(compile(mod, "<gate of %s>" % g["lean"], "exec"), ns)
            order = [v for h in ("If-Match", "If-None-Match") for v, hh in hdrs.items() if hh == h]
            import itertools as _it
            for combo in _it.product(hs, repeat=len(order)):
                for cur in curs:
                    class Rq:
                        headers = {hdrs[v]: c for v, c in zip(order, combo) if c is not None}
                    want = _pybool(lambda: ns["gate"](Rq, cur) == "refused")
                    op = {"put_refuses": "pg", "delete_refuses": "dg", "get_not_modified": "gg"}[g["lean"]]
                    out.append(("webdav gate " + g["lean"], "%s %s %s" % (op, " ".join(enc(c) for c in combo), enc(cur)),
                                want, (g["lean"], combo, cur)))
    if "TimeRange" in modules:
        out.extend(_timerange_cases())
    if "PathMap" in modules:
        from xandikos.web import XandikosBackend
        for root, rel in grid_mapfs():
            try:
                want = enc(XandikosBackend(root)._map_to_file_path(rel))
            except Exception as e:   # noqa: BLE001
                want = "raise:" + type(e).__name__
            out.append(("web._map_to_file_path", "mapfs %s %s" % (enc(root), enc(rel)), want, (root, rel)))
    if "Collation" in modules:
        from xandikos import collation
        for a, b, k in grid_match():
            out.append(("collation._match", "match %s %s %s" % (enc(a), enc(b), enc(k)),
                        _pybool(lambda: collation._match(a, b, k)), (a, b, k)))
        for n, a, b, k in grid_collate():
            out.append(("collation.collations", "collate %s %s %s %s" % (enc(n), enc(a), enc(b), enc(k)),
                        _pybool(lambda: collation.collations[n](a, b, k)), (n, a, b, k)))
    return out


LISTS = {"webdav.traverse_resource": 2, "icalendar._unescape_text": 1, "git.GitStore.iter_changes": 4, "webdav._get_resources_by_hrefs": 2}


def _canon_fpk(text):
    parts = dict(p.split("=", 1) for p in text.split(" ")) if text.startswith("res=") else None
    if parts is None:
        return text
    return (parts["res"], None if parts["reset"] == "~" else sorted(parts["reset"].split(",")), sorted(x for x in parts["desired"].split(",") if x))


def _canon(fn, text):
    if fn == "index.AutoIndexManager.find_present_keys":
        return _canon_fpk(text)
    if fn.startswith("store._check_duplicate") and text.startswith("ok "):
        return ("ok", None if text[3:] == "~" else dec(text[3:]))
    if fn.startswith("store._forget_uid") and text.startswith("="):
        return [[None if y == "~" else dec("=" + y) for y in row.split(":")] for row in text[1:].split(",")]
    if text == "~":
        return None
    if not text.startswith("="):
        return text
    if fn in LISTS:
        if LISTS[fn] == 1:
            return [dec("=" + x) for x in text[1:].split(",")]
        if text == "=":
            return []
        return [[None if y == "~" else dec("=" + y) for y in row.split(":")] for row in text[1:].split(",")]
    return dec(text)


def validate(chk, modules):
    """Run the grids; record counts in the evidence and disagreements as broken obligations."""
    ok, out = lake_build(["xgdriver"])
    info = chk.extra.setdefault("translator_validation", {})
    if not ok or not os.path.exists(GDRIVER):
        info["status"] = "unavailable: the generated modules do not build"
        chk.broke("translator validation (xgdriver build)", out[-1500:])
        return False
    cs = cases(modules)
    data = "\n".join(c[1] for c in cs) + "\n"
    p = subprocess.run([GDRIVER], input=data, capture_output=True, text=True, timeout=300)
    got = p.stdout.split("\n")[:-1]
    if p.returncode != 0 or len(got) != len(cs):
        chk.broke("translator validation (xgdriver run)", (p.stderr or "")[-800:] + f" {len(got)} lines for {len(cs)}")
        return False
    bad = {}
    per = {}
    dist = {}
    for (fn, line, want, args), g in zip(cs, got):
        per[fn] = per.get(fn, 0) + 1
        kind = want if want in ("0", "1", "~") or want.startswith("raise:") else "value"
        dist.setdefault(fn, {}).setdefault(kind, 0)
        dist[fn][kind] += 1
        # compare decoded values (the two sides may percent-encode differently)
        same = (g == want) or _canon(fn, g) == _canon(fn, want)
        if not same:
            bad.setdefault(fn, []).append({"args": args, "python": want, "generated": g})
    if bad or info.get("status") in (None, "ok"):
        info["status"] = "ok" if not bad else "disagreements"
    info.setdefault("cases", {}).update(per)
    info.setdefault("outcome_distribution", {}).update(dist)
    chk.count("translator_validation_cases", len(cs))
    for fn, items in bad.items():
        chk.broke("translator validation " + fn,
                  f"{len(items)} of {per[fn]} grid points: the Lean text emitted for {fn} does not compute what the "
                  f"Python function returns, e.g. {items[0]}", items[0])
    return not bad


def regen(chk, modules):
    """Regenerate the listed `Generated/` modules from /repo's working tree, record the status in the
    evidence and validate what was emitted against the Python functions."""
    import translate
    res = translate.generate()
    tr = chk.extra.setdefault("translation", {})
    good = []
    for m in modules:
        text, err = res[m]
        funcs = ", ".join(s["func"] for s in translate.SPECS + translate.SCAN_SPECS if s["module"] == m) or \
            {"Wellknown": "WellknownRedirector.__call__, WELLKNOWN_DAV_PATHS", "IterChanges": "GitStore.iter_changes", "Multiget": "_get_resources_by_hrefs", "FindKeys": "AutoIndexManager.find_present_keys",
             "StoreGate": "_check_duplicate and _forget_uid of GitStore and VdirStore",
             "ExcTables": "except tables of set_body, create_member, PutMethod.handle, PostMethod.handle",
             "Gates": "precondition gates of PutMethod.handle, DeleteMethod.handle, _do_get"}.get(m, m)
        tr[funcs] = "ok" if text else "unavailable: " + err
        if err:
            chk.notes.append("translation of %s unavailable (%s): tied by correspondence only" % (funcs, err))
        else:
            good.append(m)
    if [m for m in good if m != "ExcTables"]:
        validate(chk, [m for m in good if m != "ExcTables"])
    return [m for m in modules if m not in good]
