"""Fresh-process audit of crash states (C04).

usage: crash_audit.py <kind> <dir> [<dir> ...]     kind in tree|bare|vdir
For every directory prints one JSON line describing what a newly started server would see:
  {"opens": bool, "error": str|None,
   "members": {name: {"etag":…, "sha1": sha1 of the bytes read, "valid": bool}},
   "props": {"displayname":…, "description":…, "color":…, "comment":…, "type":…},
   "dangling": [ "<ref or index entry> -> <missing id>" … ],
   "stale": [lock/tmp files left behind]}
Nothing is written to the directory (it is a throw-away copy anyway).
"""
import hashlib
import json
import os
import sys

sys.path.insert(0, os.path.dirname(os.path.abspath(__file__)))
import compat  # noqa: F401,E402


def open_store(kind, path):
    from xandikos.icalendar import ICalendarFile
    from xandikos.vcard import VCardFile
    if kind == "vdir":
        from xandikos.store.vdir import VdirStore
        s = VdirStore.open_from_path(path)
    else:
        from xandikos.store.git import GitStore
        s = GitStore.open_from_path(path)
    s.load_extra_file_handler(ICalendarFile)
    s.load_extra_file_handler(VCardFile)
    return s


def git_dangling(path, kind):
    """every object reachable from every ref (and from the index) must be present"""
    import dulwich.repo
    out = []
    repo = dulwich.repo.Repo(path)
    store = repo.object_store
    seen = set()

    def walk(sha, why):
        if sha in seen:
            return
        seen.add(sha)
        try:
            o = store[sha]
        except KeyError:
            out.append("%s -> %s" % (why, sha.decode()))
            return
        except Exception as e:  # corrupt object
            out.append("%s -> %s unreadable (%s)" % (why, sha.decode(), type(e).__name__))
            return
        t = o.type_name
        if t == b"commit":
            walk(o.tree, why + "/tree")
            for p in o.parents:
                walk(p, why + "/parent")
        elif t == b"tree":
            for e in o.items():
                walk(e.sha, why + "/" + e.path.decode("utf-8", "replace"))

    try:
        refs = repo.refs.as_dict()
    except Exception as e:
        return ["refs unreadable: %s" % type(e).__name__]
    for name, sha in refs.items():
        walk(sha, name.decode())
    if kind == "tree":
        try:
            idx = repo.open_index()
            for name, sha, mode in idx.iterobjects():
                if sha not in store:
                    out.append("index:%s -> %s" % (name.decode("utf-8", "replace"), sha.decode()))
        except Exception as e:
            out.append("index unreadable: %s" % type(e).__name__)
    return out


def audit(kind, path):
    res = {"opens": False, "error": None, "members": {}, "props": {}, "dangling": [], "stale": []}
    try:
        s = open_store(kind, path)
        res["opens"] = True
        for name, ctype, etag in s.iter_with_etag():
            try:
                f = s.get_file(name, ctype, etag)
                data = b"".join(f.content)
                try:
                    f.validate()
                    valid = True
                except Exception:
                    valid = False
                res["members"][name] = {"etag": etag, "sha1": hashlib.sha1(data).hexdigest(), "valid": valid}
            except Exception as e:
                res["members"][name] = {"etag": etag, "error": type(e).__name__ + ": " + str(e)[:100]}
        for p in ("displayname", "description", "color", "comment"):
            try:
                res["props"][p] = getattr(s, "get_" + p)()
            except KeyError:
                res["props"][p] = None
            except NotImplementedError:
                res["props"][p] = "n/a"
            except Exception as e:
                res["props"][p] = "ERROR " + type(e).__name__
        try:
            res["props"]["type"] = s.get_type()
        except Exception as e:
            res["props"]["type"] = "ERROR " + type(e).__name__
        try:
            res["ctag"] = s.get_ctag()
        except Exception as e:
            res["ctag"] = "ERROR " + type(e).__name__
    except Exception as e:
        res["error"] = type(e).__name__ + ": " + str(e)[:200]
    if kind != "vdir":
        try:
            res["dangling"] = git_dangling(path, kind)
        except Exception as e:
            res["dangling"] = ["audit failed: " + type(e).__name__ + ": " + str(e)[:100]]
    for d, ds, fs in os.walk(path):
        for f in fs:
            if f.endswith(".lock") or f.endswith(".tmp") or (f.startswith("tmp") and f.endswith(".pack")):
                res["stale"].append(os.path.relpath(os.path.join(d, f), path))
    return res


def main():
    import guard
    kind = sys.argv[1]
    for d in sys.argv[2:]:
        guard.allow(d)
    guard.install(tmp_in=os.path.dirname(os.path.abspath(sys.argv[2])) if len(sys.argv) > 2 else None)
    for d in sys.argv[2:]:
        try:
            r = audit(kind, d)
        except Exception as e:
            r = {"opens": False, "error": "audit crashed: " + type(e).__name__ + ": " + str(e)[:200]}
        print(json.dumps(r, sort_keys=True))
    sys.stdout.flush()
    try:
        import guard
        guard.cleanup()
    except Exception:
        pass
    os._exit(0)


if __name__ == "__main__":
    main()
