"""Crash-point enumeration for store writes (C04).

An audit hook sees every file-system mutation of an operation *before* it happens; at each of
them the directory is copied: the copy is what is on disk if the process dies at that instant
(page cache intact).  For files written in place the bytes written between two events are only
in the process's buffer or already in the file; both extremes and cuts in between are produced.
Each copy is audited by a fresh process (crash_audit.py).
"""
import json
import os
import shutil
import subprocess
import sys

import compat  # noqa: F401

HERE = os.path.dirname(os.path.abspath(__file__))

_state = {"active": False, "root": None, "events": [], "on_event": None}
_WRITE_FLAGS = os.O_WRONLY | os.O_RDWR | os.O_CREAT | os.O_TRUNC | os.O_APPEND
_installed = [False]


def _hook(ev, args):
    st = _state
    if not st["active"]:
        return
    rec = None
    try:
        if ev == "open":
            p, mode, flags = args
            if isinstance(p, (str, bytes)) and isinstance(flags, int) and (flags & _WRITE_FLAGS):
                p = os.fsdecode(p)
                if p.startswith(st["root"]):
                    how = "excl" if flags & os.O_EXCL else ("trunc" if flags & os.O_TRUNC else
                                                           ("append" if flags & os.O_APPEND else "rw"))
                    rec = ("open", os.path.relpath(p, st["root"]), how)
        elif ev in ("os.rename", "os.remove", "os.mkdir", "os.rmdir", "os.truncate", "os.link", "os.symlink",
                    "shutil.rmtree"):
            ps = [os.fsdecode(a) for a in args if isinstance(a, (str, bytes))]
            if any(p.startswith(st["root"]) for p in ps):
                rec = (ev.split(".")[1],) + tuple(os.path.relpath(p, st["root"]) for p in ps if p.startswith(st["root"]))
    except Exception as e:  # never let the hook break the operation
        rec = ("hook-error", repr(e))
    if rec is not None:
        st["active"] = False          # the snapshot itself must not be recorded
        try:
            if st["on_event"]:
                st["on_event"](len(st["events"]), rec)
            st["events"].append(rec)
        finally:
            st["active"] = True


def record(root, fn, on_event=None):
    """run fn() recording the mutating events below root; on_event(k, event) is called BEFORE event k"""
    if not _installed[0]:
        sys.addaudithook(_hook)
        _installed[0] = True
    _state.update(active=True, root=root, events=[], on_event=on_event)
    err = None
    try:
        fn()
    except BaseException as e:
        err = e
    finally:
        _state["active"] = False
    return list(_state["events"]), err


def make_store(kind, path):
    from xandikos.icalendar import ICalendarFile
    from xandikos.vcard import VCardFile
    from xandikos.store.git import BareGitStore, TreeGitStore
    from xandikos.store.vdir import VdirStore
    s = {"tree": TreeGitStore.create, "bare": BareGitStore.create, "vdir": VdirStore.create}[kind](path)
    s.load_extra_file_handler(ICalendarFile)
    s.load_extra_file_handler(VCardFile)
    return s


def reopen(kind, path):
    from xandikos.icalendar import ICalendarFile
    from xandikos.vcard import VCardFile
    from xandikos.store.git import GitStore
    s = GitStore.open_from_path(path)
    s.load_extra_file_handler(ICalendarFile)
    s.load_extra_file_handler(VCardFile)
    return s


def run_audit(kind, dirs):
    """audit many snapshot directories in ONE fresh process"""
    if not dirs:
        return []
    p = subprocess.run(["/venv/bin/python", os.path.join(HERE, "crash_audit.py"), kind] + dirs,
                       capture_output=True, text=True, timeout=1200)
    out = [json.loads(l) for l in p.stdout.splitlines() if l.startswith("{")]
    if len(out) != len(dirs):
        raise RuntimeError("crash_audit returned %d results for %d snapshots: %s" % (len(out), len(dirs), p.stderr[-800:]))
    return out


def crash_states(kind, scratch, store_path, op_fn, cuts=(0.0, 0.5, -1)):
    """Run op_fn on the store at store_path; returns (events, error, states) where states is a list
    of dicts {k, variant, dir}: `k` = number of events completed, variant = "" or "cut:<file>@<n>"."""
    snaps = []
    root = os.path.dirname(store_path)

    def on_event(k, ev):
        d = os.path.join(scratch, "s%03d" % k)
        shutil.copytree(store_path, d, symlinks=True)
        snaps.append({"k": k, "variant": "", "dir": d})

    # the state right after a rename/unlink returns — before anything the process still holds in a
    # buffer reaches the file (e.g. a file renamed into place inside the `with` block that writes it)
    post = []
    originals = {n: getattr(os, n) for n in ("rename", "replace", "remove", "unlink")}

    def wrap(name):
        orig = originals[name]

        def w(*a, **kw):
            r = orig(*a, **kw)
            if _state["active"] and a and isinstance(a[0], (str, bytes)) and os.fsdecode(a[0]).startswith(root):
                _state["active"] = False
                try:
                    k = len(_state["events"])
                    d = os.path.join(scratch, "s%03d-after" % k)
                    if not os.path.exists(d):
                        shutil.copytree(store_path, d, symlinks=True)
                        post.append({"k": k, "variant": "after:" + name, "dir": d})
                finally:
                    _state["active"] = True
            return r
        return w
    for n in originals:
        setattr(os, n, wrap(n))
    try:
        events, err = record(root, op_fn, on_event)
    finally:
        for n, o in originals.items():
            setattr(os, n, o)
    # the completed state
    d = os.path.join(scratch, "s%03d" % len(events))
    shutil.copytree(store_path, d, symlinks=True)
    snaps.append({"k": len(events), "variant": "", "dir": d})
    # cuts of files written through a plain open(): between the open and the next event the file
    # holds any prefix of what the following snapshot shows
    extra = []
    for k, ev in enumerate(events):
        if ev[0] == "open" and k + 1 < len(snaps):
            rel = os.path.relpath(os.path.join(root, ev[1]), store_path)
            nxt = snaps[k + 1]["dir"]
            f = os.path.join(nxt, rel)
            if not os.path.isfile(f):
                continue
            full = open(f, "rb").read()
            for c in cuts:
                n = int(len(full) * c) if c >= 0 else max(len(full) - 1, 0)
                if n >= len(full) and len(full) > 0:
                    continue
                d2 = os.path.join(scratch, "s%03d-cut%d" % (k + 1, n))
                if os.path.exists(d2):
                    continue
                # state: event k done (file opened), n bytes of it on disk, nothing later done
                shutil.copytree(snaps[k]["dir"], d2, symlinks=True)
                os.makedirs(os.path.dirname(os.path.join(d2, rel)), exist_ok=True)
                base = b""
                if ev[2] in ("append", "rw") and os.path.isfile(os.path.join(snaps[k]["dir"], rel)):
                    base = open(os.path.join(snaps[k]["dir"], rel), "rb").read()
                    add = full[len(base):] if full.startswith(base) else full
                    n2 = int(len(add) * c) if c >= 0 else max(len(add) - 1, 0)
                    data = base + add[:n2]
                else:
                    data = full[:n]
                with open(os.path.join(d2, rel), "wb") as fh:
                    fh.write(data)
                extra.append({"k": k + 1, "variant": "cut:%s@%d" % (rel, len(data)), "dir": d2})
    return events, err, snaps + extra + post
