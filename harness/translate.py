"""Python `ast` -> Lean 4 translator for the small pure decision functions of xandikos.

Tie no. 1 of DESIGN.md section 2.4: on every run the listed functions are re-read from the
working tree of /repo and re-emitted as Lean definitions under lean/Xandikos/Generated/.
The tie modules (lean/Xandikos/Tie/*.lean) prove `Generated.f = Model.f`, so the property
theorems (stated about the hand-written model) are re-checked against what the code says now.

The subset is deliberately tiny; anything outside it raises `Untranslatable`, which the check
records as "translation unavailable" (the function is then tied by correspondence only).

Strings are `List Char`.  Functions that may raise are emitted in the `Except PyErr` monad
with explicit short-circuit `and` / `or`, so that Python's evaluation order is preserved.
"""
import ast
import os
import sys
import textwrap

HERE = os.path.dirname(os.path.abspath(__file__))
VERIF = os.path.dirname(HERE)
REPO = os.environ.get("XANDIKOS_REPO", "/repo")
GEN_DIR = os.path.join(VERIF, "lean", "Xandikos", "Generated")


class Untranslatable(Exception):
    pass


def lean_str(s):
    if len(s) == 1:
        return "[" + lean_char(s) + "]"
    esc = s.replace("\\", "\\\\").replace('"', '\\"')
    return '"' + esc + '".toList'


def lean_char(c):
    if c == "'":
        return "'\\''"
    if c == "\\":
        return "'\\\\'"
    return "'" + c + "'"


class Ctx:
    """Per-function translation context."""

    def __init__(self, spec):
        self.spec = spec
        self.types = dict(spec["params"])  # name -> type
        self.types.update(spec.get("extra_types", {}))
        self.monadic = spec.get("raises", False)
        self.rename = spec.get("rename", {})

    def name(self, n):
        return self.rename.get(n, n)


# An expression translates to (lean_text, type, is_monadic)


def truthy(text, ty):
    if ty == "bool":
        return text
    if ty == "str":
        return f"Py.Str.truthy {paren(text)}"
    if ty in ("ostr", "otval", "odur", "oprop"):
        return f"Option.isSome {paren(text)}"
    if ty.startswith("list"):
        return f"!(List.isEmpty {paren(text)})"
    raise Untranslatable(f"truthiness of type {ty}")


def paren(t):
    t = t.strip()
    if t.startswith("(") and t.endswith(")") and balanced(t[1:-1]):
        return t
    if all(ch.isalnum() or ch in "_.'" for ch in t):
        return t
    return "(" + t + ")"


def balanced(s):
    d = 0
    for ch in s:
        if ch == "(":
            d += 1
        elif ch == ")":
            d -= 1
            if d < 0:
                return False
    return d == 0


def lift(text, m):
    """Make a pure Bool/any text monadic if needed."""
    return text if m else f"(pure {paren(text)})"


def tr_expr(e, cx):
    """-> (text, type, monadic)"""
    if isinstance(e, ast.Constant):
        if isinstance(e.value, bool):
            return ("true" if e.value else "false", "bool", False)
        if isinstance(e.value, str):
            return (lean_str(e.value), "str", False)
        if e.value is None:
            return ("none", "none", False)
        if isinstance(e.value, int):
            return (str(e.value), "int", False)
        raise Untranslatable(f"constant {e.value!r}")
    if isinstance(e, ast.Name):
        if e.id not in cx.types:
            raise Untranslatable(f"unknown name {e.id}")
        return (cx.name(e.id), cx.types[e.id], False)
    if isinstance(e, ast.BoolOp):
        parts = [tr_expr(v, cx) for v in e.values]
        anym = any(p[2] for p in parts)
        texts = []
        for (t, ty, m) in parts:
            if m:
                if ty != "bool":
                    raise Untranslatable("monadic non-bool operand of and/or")
                texts.append(t)
            else:
                texts.append(truthy(t, ty))
        if not anym:
            op = " && " if isinstance(e.op, ast.And) else " || "
            return ("(" + op.join(paren(t) for t in texts) + ")", "bool", False)
        # explicit short circuit in the monad, right-nested
        fn = "Py.andM" if isinstance(e.op, ast.And) else "Py.orM"
        acc = lift(texts[-1], parts[-1][2])
        for (t, (_, _, m)) in reversed(list(zip(texts[:-1], parts[:-1]))):
            acc = f"({fn} {lift(t, m)} {acc})"
        return (acc, "bool", True)
    if isinstance(e, ast.UnaryOp) and isinstance(e.op, ast.Not):
        t, ty, m = tr_expr(e.operand, cx)
        if m:
            return (f"(Py.notM {t})", "bool", True)
        return (f"(!{paren(truthy(t, ty))})", "bool", False)
    if isinstance(e, ast.Compare):
        if len(e.ops) != 1:
            raise Untranslatable("comparison chain")
        op = e.ops[0]
        lt, lty, lm = tr_expr(e.left, cx)
        rt, rty, rm = tr_expr(e.comparators[0], cx)
        if isinstance(op, (ast.Is, ast.IsNot)):
            if rty != "none":
                raise Untranslatable("`is` with non-None")
            f = "Option.isNone" if isinstance(op, ast.Is) else "Option.isSome"
            if lm:
                return (f"(do let a__ ← {lt}; pure ({f} a__))", "bool", True)
            return (f"({f} {paren(lt)})", "bool", False)
        if lm or rm:
            # bind both sides left to right
            sym = cmp_sym(op)
            body = cmp_text("a__", lty, "b__", rty, sym, op)
            return (f"(do let a__ ← {lift(lt, lm)}; let b__ ← {lift(rt, rm)}; pure {paren(body)})", "bool", True)
        return (cmp_text(lt, lty, rt, rty, cmp_sym(op), op), "bool", False)
    if isinstance(e, ast.BinOp) and isinstance(e.op, ast.Add):
        lt, lty, lm = tr_expr(e.left, cx)
        rt, rty, rm = tr_expr(e.right, cx)
        if lty == "str" and rty == "str" and not (lm or rm):
            return (f"({paren(lt)} ++ {paren(rt)})", "str", False)
        if lty in ("time",) and rty in ("dur",):
            if lm or rm:
                return (f"(do let a__ ← {lift(lt, lm)}; let b__ ← {lift(rt, rm)}; pure (a__ + b__))", "time", True)
            return (f"({paren(lt)} + {paren(rt)})", "time", False)
        raise Untranslatable(f"+ on {lty},{rty}")
    if isinstance(e, ast.Attribute):
        if isinstance(e.value, ast.Name) and e.value.id == "self" and ("self." + e.attr) in cx.rename \
                and ("self." + e.attr) in cx.types:
            return (cx.name("self." + e.attr), cx.types["self." + e.attr], False)
        # x.dt
        if e.attr == "dt":
            t, ty, m = tr_expr(e.value, cx)
            if m:
                raise Untranslatable("nested monadic .dt")
            if ty == "otval":
                return (f"(Py.dt {paren(t)})", "tval", True)
            if ty == "odur":
                return (f"(Py.dtDur {paren(t)})", "dur", True)
            if ty == "tval":
                return (t, "tval", False)
            raise Untranslatable(f".dt on {ty}")
        if e.attr in ("start", "end") and isinstance(e.value, ast.Name):
            base = e.value.id
            if base == "self":
                nm = cx.name("self." + e.attr)
                return (nm, "time", False)
            if cx.types.get(base) == "period":
                return (f"{cx.name(base)}.{'1' if e.attr == 'start' else '2'}", "time", False)
        raise Untranslatable(f"attribute {e.attr}")
    if isinstance(e, ast.Subscript):
        # environ["SCRIPT_NAME"]: a named entry of a mapping parameter (declared in the spec)
        if isinstance(e.value, ast.Name) and isinstance(e.slice, ast.Constant) \
                and (e.value.id, e.slice.value) in cx.spec.get("subscripts", {}):
            nm, ty = cx.spec["subscripts"][(e.value.id, e.slice.value)]
            return (nm, ty, False)
        # s[len(t):]  (the only slice shape supported)
        if isinstance(e.slice, ast.Slice) and e.slice.upper is None and e.slice.step is None \
                and e.slice.lower is not None:
            v, vty, vm = tr_expr(e.value, cx)
            lo, loty, lom = tr_expr(e.slice.lower, cx)
            if vty != "str" or loty != "nat" or vm or lom:
                raise Untranslatable(f"slice of {vty} from {loty}")
            return (f"(List.drop {paren(lo)} {paren(v)})", "str", False)
        raise Untranslatable("subscript shape")
    if isinstance(e, ast.Call):
        return tr_call(e, cx)
    raise Untranslatable(f"expression {ast.dump(e)[:80]}")


def cmp_sym(op):
    return {ast.Eq: "==", ast.NotEq: "!=", ast.Lt: "<", ast.LtE: "<=", ast.Gt: ">", ast.GtE: ">=",
            ast.In: "in", ast.NotIn: "notin"}.get(type(op)) or (_ for _ in ()).throw(Untranslatable("cmp op"))


def cmp_text(lt, lty, rt, rty, sym, op):
    if sym in ("==", "!="):
        if lty == "str" and rty == "ostr":
            body = f"(some {paren(lt)} == {paren(rt)})"
        elif lty == "ostr" and rty == "str":
            body = f"({paren(lt)} == some {paren(rt)})"
        elif lty == rty or "none" in (lty, rty):
            body = f"({paren(lt)} == {paren(rt)})"
        else:
            raise Untranslatable(f"== on {lty},{rty}")
        return body if sym == "==" else f"(!{body})"
    if sym in ("<", "<=", ">", ">="):
        if not ((lty in ("time", "int") and rty in ("time", "int")) or (lty == "dur" and rty == "dur")):
            raise Untranslatable(f"order comparison on {lty},{rty}")
        return f"(decide ({paren(lt)} {'≤' if sym == '<=' else '≥' if sym == '>=' else sym} {paren(rt)}))"
    if sym == "in":
        if lty == "str" and rty == "str":
            return f"(Py.Str.isInfix {paren(lt)} {paren(rt)})"
        raise Untranslatable(f"in on {lty},{rty}")
    raise Untranslatable("cmp")


def dotted(f):
    if isinstance(f, ast.Name):
        return f.id
    if isinstance(f, ast.Attribute):
        b = dotted(f.value)
        return b + "." + f.attr if b else None
    return None


def tr_call(e, cx):
    f = e.func
    dn = dotted(f)
    if dn in ("posixpath.normpath", "os.path.normpath") and len(e.args) == 1:
        a, aty, am = tr_expr(e.args[0], cx)
        if aty != "str" or am:
            raise Untranslatable("normpath arg")
        return (f"(Py.Path.normpath {paren(a)})", "str", False)
    if dn in ("posixpath.join", "os.path.join") and len(e.args) == 2:
        a, aty, am = tr_expr(e.args[0], cx)
        b, bty, bm = tr_expr(e.args[1], cx)
        if aty != "str" or bty != "str" or am or bm:
            raise Untranslatable("join args")
        return (f"(Py.Path.join {paren(a)} {paren(b)})", "str", False)
    if isinstance(f, ast.Attribute):
        recv_t, recv_ty, recv_m = tr_expr(f.value, cx) if not (
            isinstance(f.value, ast.Name) and f.value.id in ("comp",) and f.attr == "get") else (None, None, None)
        if f.attr == "get" and isinstance(f.value, ast.Name) and cx.types.get(f.value.id) == "comp":
            key = e.args[0]
            if not (isinstance(key, ast.Constant) and isinstance(key.value, str)):
                raise Untranslatable("comp.get with non-literal key")
            table = {"DTSTART": ("dtstart", "otval"), "DTEND": ("dtend", "otval"), "DUE": ("due", "otval"),
                     "COMPLETED": ("completed", "otval"), "CREATED": ("created", "otval"),
                     "DURATION": ("duration", "odur"), "FREEBUSY": ("freebusy", "list:period")}
            if key.value not in table:
                raise Untranslatable(f"comp.get({key.value!r})")
            fld, ty = table[key.value]
            if key.value == "FREEBUSY":
                if len(e.args) != 2 or not (isinstance(e.args[1], ast.List) and not e.args[1].elts):
                    raise Untranslatable("comp.get('FREEBUSY') default")
            elif len(e.args) != 1:
                raise Untranslatable("comp.get with default")
            return (f"{cx.name(f.value.id)}.{fld}", ty, False)
        if recv_m:
            raise Untranslatable("method call on monadic receiver")
        if recv_ty == "str":
            def chararg():
                if len(e.args) == 1 and isinstance(e.args[0], ast.Constant) and isinstance(e.args[0].value, str) \
                        and len(e.args[0].value) == 1:
                    return lean_char(e.args[0].value)
                raise Untranslatable(f".{f.attr} needs a one-character literal")
            if f.attr == "split":
                return (f"(Py.Str.splitOn {chararg()} {paren(recv_t)})", "list:str", False)
            if f.attr in ("strip", "lstrip", "rstrip"):
                if cx.spec.get("pathctx") and chararg() == "'/'" and f.attr in ("lstrip", "rstrip"):
                    return (f"(Py.Path.{f.attr}Slash {paren(recv_t)})", "str", False)
                return (f"(Py.Str.{f.attr} {chararg()} {paren(recv_t)})", "str", False)
            if f.attr in ("startswith", "endswith"):
                a, aty, am = tr_expr(e.args[0], cx)
                if aty != "str" or am:
                    raise Untranslatable("startswith arg")
                fn = "startsWith" if f.attr == "startswith" else "endsWith"
                return (f"(Py.Str.{fn} {paren(recv_t)} {paren(a)})", "bool", False)
            if f.attr == "upper" and not e.args:
                return (f"(Py.Str.upperAscii {paren(recv_t)})", "str", False)
        raise Untranslatable(f"method {f.attr} on {recv_ty}")
    if isinstance(f, ast.Name):
        if f.id == "len" and len(e.args) == 1 and not e.keywords:
            a, aty, am = tr_expr(e.args[0], cx)
            if aty != "str" or am:
                raise Untranslatable("len of " + aty)
            return (f"(List.length {paren(a)})", "nat", False)
        if f.id == "_as_list" and len(e.args) == 1:
            a, aty, am = tr_expr(e.args[0], cx)
            if not aty.startswith("list:") or am:
                raise Untranslatable("_as_list of " + aty)
            return (a, aty, am)
        if f.id == "tzify" and len(e.args) == 1:
            a, aty, am = tr_expr(e.args[0], cx)
            if aty != "tval":
                raise Untranslatable(f"tzify of {aty}")
            if am:
                return (f"(do let v__ ← {a}; pure (tzify v__))", "time", True)
            return (f"(tzify {paren(a)})", "time", False)
        if f.id == "timedelta" and len(e.args) == 1 and isinstance(e.args[0], ast.Constant) and e.args[0].value == 1:
            return ("Py.oneDay", "dur", False)
        if f.id == "timedelta" and len(e.args) == 1 and isinstance(e.args[0], ast.Constant) and e.args[0].value == 0:
            return ("(0 : Int)", "dur", False)
        if f.id == "getattr" and len(e.args) == 3:
            # getattr(x.dt, "time", None): non-None iff x.dt is a datetime
            a, aty, am = tr_expr(e.args[0], cx)
            if not (isinstance(e.args[1], ast.Constant) and e.args[1].value == "time"
                    and isinstance(e.args[2], ast.Constant) and e.args[2].value is None):
                raise Untranslatable("getattr pattern")
            if aty != "tval":
                raise Untranslatable("getattr on " + aty)
            if am:
                return (f"(do let v__ ← {a}; pure (Py.timeAttr v__))", "otime", True)
            return (f"(Py.timeAttr {paren(a)})", "otime", False)
    raise Untranslatable(f"call {ast.dump(f)[:60]}")


# ---------------------------------------------------------------------------
# statements

def tr_block(stmts, cx, indent):
    """Translate a statement list that ends every path with return/raise -> Lean term text."""
    pad = "  " * indent
    if not stmts:
        raise Untranslatable("block falls off the end")
    s, rest = stmts[0], stmts[1:]
    if isinstance(s, ast.Expr) and isinstance(s.value, ast.Constant) and isinstance(s.value.value, str):
        return tr_block(rest, cx, indent)  # docstring
    if isinstance(s, ast.Expr) and isinstance(s.value, ast.Call) and isinstance(s.value.func, ast.Attribute) \
            and isinstance(s.value.func.value, ast.Name) and s.value.func.value.id == "logging":
        return tr_block(rest, cx, indent)  # logging.debug(...)
    if isinstance(s, ast.Return):
        if rest:
            raise Untranslatable("code after return")
        t, ty, m = tr_expr(s.value, cx)
        want = cx.spec["returns"]
        if want == "bool" and ty != "bool":
            t = truthy(t, ty) if not m else t
        if want == "ostr":
            if ty == "str":
                t = f"(some {paren(t)})"
            elif ty not in ("ostr", "none"):
                raise Untranslatable(f"return of {ty} where Optional[str] is declared")
        if cx.monadic:
            return pad + lift(t, m)
        if m:
            raise Untranslatable("monadic value in a pure function")
        return pad + t
    if isinstance(s, ast.Raise):
        if not cx.monadic:
            raise Untranslatable("raise in a pure function")
        exc = s.exc
        if isinstance(exc, ast.Call) and isinstance(exc.func, ast.Name):
            arg = ""
            if exc.args and isinstance(exc.args[0], ast.Constant):
                arg = str(exc.args[0].value)
            return pad + f'(throw (Py.PyErr.raised "{exc.func.id}" "{arg}"))'
        if isinstance(exc, ast.Name):
            return pad + f'(throw (Py.PyErr.raised "{exc.id}" ""))'
        raise Untranslatable("raise form")
    if isinstance(s, ast.Assign):
        if len(s.targets) != 1 or not isinstance(s.targets[0], ast.Name):
            raise Untranslatable("assignment target")
        t, ty, m = tr_expr(s.value, cx)
        name = s.targets[0].id
        cx.types[name] = ty
        if m:
            return pad + f"(do let {cx.name(name)} ← {t}\n{tr_block(rest, cx, indent + 1)})" if False else \
                pad + f"({t} >>= fun {cx.name(name)} =>\n{tr_block(rest, cx, indent + 1)})"
        return pad + f"let {cx.name(name)} := {t}\n{tr_block(rest, cx, indent)}"
    if isinstance(s, ast.If) and not s.orelse and isinstance(s.test, ast.Compare) and len(s.test.ops) == 1 \
            and isinstance(s.test.ops[0], ast.Is) and isinstance(s.test.left, ast.Name) \
            and cx.types.get(s.test.left.id) == "ostr" and isinstance(s.test.comparators[0], ast.Constant) \
            and s.test.comparators[0].value is None and leaves(s.body) and not cx.monadic:
        # `if x is None: <leave>` narrows x to str in the rest
        x = s.test.left.id
        thn = tr_block(s.body, cx, indent + 2)
        saved = dict(cx.types)
        cx.types[x] = "str"
        els = tr_block(rest, cx, indent + 2)
        cx.types = saved
        return pad + f"(match {cx.name(x)} with\n{pad}  | none =>\n{thn}\n{pad}  | some {cx.name(x)} =>\n{els})"
    if isinstance(s, ast.If) and not s.orelse and not leaves(s.body) and s.body \
            and all(isinstance(b, ast.Assign) and len(b.targets) == 1 and isinstance(b.targets[0], ast.Name)
                    and b.targets[0].id in cx.types for b in s.body) and len(s.body) == 1:
        # `if C: v = E` with v already bound: v := if C then E else v
        t, ty, m = tr_expr(s.test, cx)
        b = s.body[0]
        v = b.targets[0].id
        et, ety, em = tr_expr(b.value, cx)
        if m or em or ety != cx.types[v]:
            raise Untranslatable("conditional re-assignment shape")
        return pad + f"let {cx.name(v)} := (if {truthy(t, ty)} then {et} else {cx.name(v)})\n{tr_block(rest, cx, indent)}"
    if isinstance(s, ast.If):
        t, ty, m = tr_expr(s.test, cx)
        cond = t if m else truthy(t, ty)
        # does the body always leave?
        body_leaves = leaves(s.body)
        if s.orelse:
            else_leaves = leaves(s.orelse)
            if body_leaves and else_leaves:
                if rest:
                    raise Untranslatable("code after exhaustive if")
                thn = tr_block(s.body, cx, indent + 1)
                els = tr_block(s.orelse, cx, indent + 1)
            elif body_leaves:
                thn = tr_block(s.body, cx, indent + 1)
                els = tr_block(s.orelse + rest, cx, indent + 1)
            else:
                raise Untranslatable("if-branch falls through")
        else:
            if body_leaves:
                thn = tr_block(s.body, cx, indent + 1)
                els = tr_block(rest, cx, indent + 1)
            else:
                # body has only side-effect-free logging -> skip
                if all(isinstance(b, ast.Expr) and isinstance(b.value, ast.Call) for b in s.body):
                    return tr_block(rest, cx, indent)
                raise Untranslatable("if without else falls through")
        if m:
            return pad + f"({cond} >>= fun c__ => if c__ then\n{thn}\n{pad}else\n{els})"
        return pad + f"(if {cond} then\n{thn}\n{pad}else\n{els})"
    if isinstance(s, ast.For):
        # for v in ITER: (if C: return True)+   followed by   return False
        if not isinstance(s.target, ast.Name) or s.orelse:
            raise Untranslatable("for target")
        it, ity, im = tr_expr(s.iter, cx)
        if im or not ity.startswith("list:"):
            raise Untranslatable("for iterable")
        elem_ty = ity.split(":", 1)[1]
        var = s.target.id
        cx.types[var] = elem_ty
        conds = []
        for b in s.body:
            if isinstance(b, ast.If) and not b.orelse and len(b.body) == 1 and isinstance(b.body[0], ast.Return) \
                    and isinstance(b.body[0].value, ast.Constant) and b.body[0].value.value is True:
                ct, cty, cm = tr_expr(b.test, cx)
                if cm:
                    raise Untranslatable("monadic loop condition")
                conds.append(truthy(ct, cty))
            else:
                raise Untranslatable("loop body shape")
        if not (len(rest) == 1 and isinstance(rest[0], ast.Return) and isinstance(rest[0].value, ast.Constant)
                and rest[0].value.value is False):
            raise Untranslatable("loop must be followed by `return False`")
        body = " || ".join(paren(c) for c in conds)
        t = f"(List.any {paren(it)} (fun {cx.name(var)} => {body}))"
        return pad + (lift(t, False) if cx.monadic else t)
    raise Untranslatable(f"statement {type(s).__name__}")


def leaves(stmts):
    if not stmts:
        return False
    last = stmts[-1]
    if isinstance(last, (ast.Return, ast.Raise)):
        return True
    if isinstance(last, ast.If) and last.orelse:
        return leaves(last.body) and leaves(last.orelse)
    if isinstance(last, ast.For):
        return False
    return False


# ---------------------------------------------------------------------------
# index-scan loops:  `acc = []; i = 0; while i < len(text): <body>;  <epilogue>; return X`
#
# The body is translated statement by statement into a state transformer over the variables
# the loop assigns (in continuation-passing style: an `if` that does not leave the iteration is
# followed by the rest of the body in both branches; `continue` and the end of the body yield the
# current state).  `text[i]` is `Py.idx` (IndexError as a value), so the function is emitted in
# the `Except PyErr` monad; the loop itself gets a fuel argument of `len(text) + 1` and *raises*
# when the fuel runs out — the tie theorem `… = pure (model …)` therefore also proves that no
# IndexError is raised and that the loop terminates.

def _char_or_str_literal(e):
    return isinstance(e, ast.Constant) and isinstance(e.value, str) and len(e.value) == 1


def tr_scan_expr(e, cx):
    """expressions inside a scan loop -> (text, type, monadic); types: nat, char, str (List Char), bool,
    strlist (List (List Char)), charbuf (List Char being built with .append)"""
    if isinstance(e, ast.Constant):
        if isinstance(e.value, bool):
            return ("true" if e.value else "false", "bool", False)
        if isinstance(e.value, int):
            return (str(e.value), "nat", False)
        if isinstance(e.value, str):
            if len(e.value) == 1:
                return (lean_char(e.value).replace("'\n'", "'\\n'"), "char", False)
            return (lean_str(e.value).replace("\n", "\\n"), "str", False)
    if isinstance(e, ast.List) and not e.elts:
        return ("[]", "emptylist", False)
    if isinstance(e, ast.Name):
        if e.id not in cx.types:
            raise Untranslatable(f"unknown name {e.id}")
        return (cx.name(e.id), cx.types[e.id], False)
    if isinstance(e, ast.BinOp) and isinstance(e.op, ast.Add):
        a, aty, am = tr_scan_expr(e.left, cx)
        b, bty, bm = tr_scan_expr(e.right, cx)
        if aty == "nat" and bty == "nat" and not (am or bm):
            return (f"({a} + {b})", "nat", False)
        raise Untranslatable(f"+ on {aty},{bty} in a scan loop")
    if isinstance(e, ast.Subscript) and isinstance(e.value, ast.Name) and cx.types.get(e.value.id) == "str" \
            and not isinstance(e.slice, ast.Slice):
        ix, ity, im = tr_scan_expr(e.slice, cx)
        if ity != "nat" or im:
            raise Untranslatable("index type")
        return (f"(Py.idx {cx.name(e.value.id)} {paren(ix)})", "char", True)
    if isinstance(e, ast.Call) and isinstance(e.func, ast.Name) and e.func.id == "len" and len(e.args) == 1:
        a, aty, am = tr_scan_expr(e.args[0], cx)
        if aty != "str" or am:
            raise Untranslatable("len arg")
        return (f"(List.length {paren(a)})", "nat", False)
    if isinstance(e, ast.Call) and isinstance(e.func, ast.Attribute) and e.func.attr == "join" \
            and isinstance(e.func.value, ast.Constant) and e.func.value.value == "" and len(e.args) == 1:
        a, aty, am = tr_scan_expr(e.args[0], cx)
        if aty != "charbuf" or am:
            raise Untranslatable('"".join of ' + aty)
        return (a, "str", False)
    if isinstance(e, ast.Compare) and len(e.ops) == 1:
        a, aty, am = tr_scan_expr(e.left, cx)
        b, bty, bm = tr_scan_expr(e.comparators[0], cx)
        if am or bm:
            raise Untranslatable("monadic comparison operand")
        op = e.ops[0]
        if isinstance(op, ast.Eq) and aty == bty and aty in ("char", "nat", "str"):
            return (f"({a} == {b})", "bool", False)
        if isinstance(op, ast.Lt) and aty == "nat" and bty == "nat":
            return (f"(decide ({a} < {b}))", "bool", False)
        if isinstance(op, ast.In) and aty == "char" and bty == "str":
            return (f"(List.elem {a} {paren(b)})", "bool", False)
        raise Untranslatable(f"comparison {type(op).__name__} on {aty},{bty}")
    if isinstance(e, ast.BoolOp):
        parts = [tr_scan_expr(v, cx) for v in e.values]
        if any(m for _, _, m in parts) or any(t != "bool" for _, t, _ in parts):
            raise Untranslatable("and/or operands in a scan loop")
        op = " && " if isinstance(e.op, ast.And) else " || "
        return ("(" + op.join(t for t, _, _ in parts) + ")", "bool", False)
    if isinstance(e, ast.IfExp):
        c, cty, cm = tr_scan_expr(e.test, cx)
        a, aty, am = tr_scan_expr(e.body, cx)
        b, bty, bm = tr_scan_expr(e.orelse, cx)
        if cm or am or bm or cty != "bool" or aty != bty:
            raise Untranslatable("conditional expression shape")
        return (f"(if {c} then {a} else {b})", aty, False)
    raise Untranslatable(f"scan-loop expression {ast.dump(e)[:70]}")


def tr_scan_stmts(stmts, cx, state, indent, at_end):
    """-> Lean text of type Except PyErr State.  `at_end` is the text to yield when control falls off."""
    pad = "  " * indent
    if not stmts:
        return pad + at_end
    s, rest = stmts[0], stmts[1:]
    if isinstance(s, ast.Continue):
        return pad + at_end
    if isinstance(s, ast.Assign) and len(s.targets) == 1 and isinstance(s.targets[0], ast.Name):
        v = s.targets[0].id
        t, ty, m = tr_scan_expr(s.value, cx)
        if ty == "emptylist":
            ty = cx.types.get(v) or cx.spec.get("locals", {}).get(v)
            if ty is None:
                raise Untranslatable(f"type of the empty list assigned to {v}")
        if v in cx.types and cx.types[v] != ty:
            raise Untranslatable(f"{v} changes type")
        cx.types[v] = ty
        if m:
            return pad + f"({t} >>= fun {cx.name(v)} =>\n{tr_scan_stmts(rest, cx, state, indent + 1, at_end)})"
        return pad + f"let {cx.name(v)} := {t}\n{tr_scan_stmts(rest, cx, state, indent, at_end)}"
    if isinstance(s, ast.AugAssign) and isinstance(s.target, ast.Name) and isinstance(s.op, ast.Add):
        v = s.target.id
        t, ty, m = tr_scan_expr(s.value, cx)
        if cx.types.get(v) != "nat" or ty != "nat" or m:
            raise Untranslatable("+= shape")
        return pad + f"let {cx.name(v)} := ({cx.name(v)} + {t})\n{tr_scan_stmts(rest, cx, state, indent, at_end)}"
    if isinstance(s, ast.Expr) and isinstance(s.value, ast.Call) and isinstance(s.value.func, ast.Attribute) \
            and s.value.func.attr == "append" and isinstance(s.value.func.value, ast.Name) and len(s.value.args) == 1:
        v = s.value.func.value.id
        t, ty, m = tr_scan_expr(s.value.args[0], cx)
        want = {"charbuf": "char", "strlist": "str"}.get(cx.types.get(v))
        if want is None or ty != want or m:
            raise Untranslatable(f"{v}.append({ty})")
        return pad + f"let {cx.name(v)} := ({cx.name(v)} ++ [{t}])\n{tr_scan_stmts(rest, cx, state, indent, at_end)}"
    if isinstance(s, ast.If):
        c, cty, cm = tr_scan_expr(s.test, cx)
        if cm or cty != "bool":
            raise Untranslatable("scan-loop condition")
        saved = dict(cx.types)
        thn = tr_scan_stmts(s.body + ([] if _leaves_iter(s.body) else rest), cx, state, indent + 1, at_end)
        cx.types = dict(saved)
        els = tr_scan_stmts((s.orelse or []) + ([] if _leaves_iter(s.orelse) else rest), cx, state, indent + 1, at_end)
        cx.types = saved
        return pad + f"(if {c} then\n{thn}\n{pad}else\n{els})"
    raise Untranslatable(f"scan-loop statement {type(s).__name__}")


def _leaves_iter(stmts):
    return bool(stmts) and isinstance(stmts[-1], ast.Continue)


def translate_scan(spec, repo=REPO):
    src = open(os.path.join(repo, spec["file"]), encoding="utf-8").read()
    fn = find_func(ast.parse(src), spec["func"])
    if fn is None:
        raise Untranslatable(f"function {spec['func']} not found")
    if [a.arg for a in fn.args.args] != [p[0] for p in spec["params"]]:
        raise Untranslatable("signature changed")
    cx = Ctx(spec)
    body = [b for b in fn.body if not (isinstance(b, ast.Expr) and isinstance(b.value, ast.Constant))]
    k = next((j for j, b in enumerate(body) if isinstance(b, ast.While)), None)
    if k is None or any(isinstance(b, ast.While) for b in body[k + 1:]):
        raise Untranslatable("exactly one while loop expected")
    loop = body[k]
    if loop.orelse:
        raise Untranslatable("while-else")
    # prologue: initialisations of the state variables
    state = []
    inits = {}
    for b in body[:k]:
        if not (isinstance(b, ast.Assign) and len(b.targets) == 1 and isinstance(b.targets[0], ast.Name)):
            raise Untranslatable("prologue statement")
        v = b.targets[0].id
        t, ty, m = tr_scan_expr(b.value, cx)
        if ty == "emptylist":
            ty = spec["locals"][v]
        if m:
            raise Untranslatable("monadic initialiser")
        cx.types[v] = ty
        state.append(v)
        inits[v] = t
    # guard:  i < len(text)
    g = loop.test
    if not (isinstance(g, ast.Compare) and len(g.ops) == 1 and isinstance(g.ops[0], ast.Lt) and isinstance(g.left, ast.Name)
            and g.left.id in state and cx.types[g.left.id] == "nat"):
        raise Untranslatable("loop guard shape")
    bound, bty, bm = tr_scan_expr(g.comparators[0], cx)
    if bty != "nat" or bm or not (isinstance(g.comparators[0], ast.Call) and isinstance(g.comparators[0].func, ast.Name)
                                   and g.comparators[0].func.id == "len"):
        raise Untranslatable("loop bound must be len(<parameter>)")
    ivar = g.left.id
    sty = {"nat": "Nat", "charbuf": "List Char", "strlist": "List (List Char)", "str": "List Char", "bool": "Bool"}
    tup = "(" + ", ".join(cx.name(v) for v in state) + ")"
    tupty = " × ".join(sty[cx.types[v]] for v in state)
    params = " ".join(f"({cx.name(n)} : {LEAN_TY[t]})" for n, t in spec["params"])
    pnames = " ".join(cx.name(n) for n, _ in spec["params"])
    svars = " ".join(f"({cx.name(v)} : {sty[cx.types[v]]})" for v in state)
    snames = " ".join(cx.name(v) for v in state)
    types_at_loop = dict(cx.types)
    body_txt = tr_scan_stmts(loop.body, cx, state, 1, f"(pure {tup})")
    cx.types = types_at_loop
    # epilogue
    epi = body[k + 1:]
    if not epi or not isinstance(epi[-1], ast.Return):
        raise Untranslatable("epilogue must end in return")
    rt, rty, rm = None, None, None

    def epilogue(stmts, indent):
        pad = "  " * indent
        s0, rest0 = stmts[0], stmts[1:]
        if isinstance(s0, ast.Return):
            t, ty, m = tr_scan_expr(s0.value, cx)
            if m or ty != spec["returns"]:
                raise Untranslatable(f"return of {ty}")
            return pad + f"(pure {paren(t)})"
        return tr_scan_stmts([s0], cx, state, indent, "").rstrip() + "\n" + epilogue(rest0, indent)
    epi_txt = epilogue(epi, 2)
    ret = sty[spec["returns"]]
    L = spec["lean"]
    return (
        f"/-- one iteration of the loop of `{spec['file']}::{spec['func']}` -/\n"
        f"def {L}_body {params} {svars} : Except Py.PyErr ({tupty}) :=\n{body_txt}\n\n"
        f"/-- the loop, with fuel; running out of fuel is an error, so `= pure …` proves termination -/\n"
        f"def {L}_loop {params} : Nat → {' → '.join(sty[cx.types[v]] for v in state)} → Except Py.PyErr ({tupty})\n"
        f"  | 0, {', '.join('_' for _ in state)} => throw (Py.PyErr.raised \"FuelExhausted\" \"\")\n"
        f"  | fuel + 1, {', '.join(cx.name(v) for v in state)} =>\n"
        f"    if {cx.name(ivar)} < {bound} then\n"
        f"      {L}_body {pnames} {snames} >>= fun {tup} => {L}_loop {pnames} fuel {snames}\n"
        f"    else pure {tup}\n\n"
        f"/-- translated from `{spec['file']}::{spec['func']}` -/\n"
        f"def {L} {params} : Except Py.PyErr ({ret}) :=\n"
        f"  {L}_loop {pnames} ({bound} + 1) {' '.join(paren(inits[v]) for v in state)} >>= fun {tup} =>\n{epi_txt}\n"
    )


# ---------------------------------------------------------------------------
# which functions

LEAN_TY = {"nat": "Nat", "str": "List Char", "ostr": "Option (List Char)", "bool": "Bool", "time": "Int", "comp": "Py.Comp",
           "tzify": "Py.TVal → Int", "oprop": "Option Py.TVal", "tval": "Py.TVal"}

SPECS = [
    dict(module="PathMap", file="xandikos/web.py", func="_map_to_file_path", lean="map_to_file_path",
         params=[("self", "self"), ("relpath", "str")], returns="str", pathctx=True,
         rename={"self.path": "root"}, extra_types={"self.path": "str"}, lean_params=[("root", "str"), ("relpath", "str")]),
    dict(module="Etag", file="xandikos/webdav.py", func="etag_matches", lean="etag_matches",
         params=[("condition", "str"), ("actual_etag", "ostr")], returns="bool"),
    dict(module="Href", file="xandikos/webdav.py", func="ensure_trailing_slash", lean="ensure_trailing_slash",
         params=[("href", "str")], returns="str"),
    dict(module="Href", file="xandikos/webdav.py", func="href_to_path", lean="href_to_path",
         params=[("environ", "environ"), ("href", "str")], returns="ostr", pathctx=True,
         subscripts={("environ", "SCRIPT_NAME"): ("script", "str")},
         lean_params=[("script", "str"), ("href", "str")]),
    dict(module="StrongEtag", file="xandikos/web.py", func="create_strong_etag", lean="create_strong_etag",
         params=[("etag", "str")], returns="str"),
    dict(module="StrongEtag", file="xandikos/web.py", func="extract_strong_etag", lean="extract_strong_etag",
         params=[("etag", "ostr")], returns="ostr"),
    dict(module="Collation", file="xandikos/collation.py", func="_match", lean="match_",
         params=[("a", "str"), ("b", "str"), ("k", "str")], returns="bool", raises=True),
    dict(module="TimeRange", file="xandikos/icalendar.py", func="apply_time_range_vevent", lean="apply_time_range_vevent",
         params=[("start", "time"), ("end", "time"), ("comp", "comp"), ("tzify", "tzify")], returns="bool",
         raises=True, rename={"end": "end_"}),
    dict(module="TimeRange", file="xandikos/icalendar.py", func="apply_time_range_vjournal", lean="apply_time_range_vjournal",
         params=[("start", "time"), ("end", "time"), ("comp", "comp"), ("tzify", "tzify")], returns="bool",
         raises=True, rename={"end": "end_"}),
    dict(module="TimeRange", file="xandikos/icalendar.py", func="apply_time_range_vtodo", lean="apply_time_range_vtodo",
         params=[("start", "time"), ("end", "time"), ("comp", "comp"), ("tzify", "tzify")], returns="bool",
         raises=True, rename={"end": "end_"}),
    dict(module="TimeRange", file="xandikos/icalendar.py", func="apply_time_range_vfreebusy", lean="apply_time_range_vfreebusy",
         params=[("start", "time"), ("end", "time"), ("comp", "comp"), ("tzify", "tzify")], returns="bool",
         raises=True, rename={"end": "end_"}),
]


# ---------------------------------------------------------------------------
# wsgi_helpers.WellknownRedirector.__call__: which requests are answered with the redirect

def _module_str_constant(repo, relfile, name):
    tree = ast.parse(open(os.path.join(repo, relfile), encoding="utf-8").read())
    for node in tree.body:
        if isinstance(node, ast.Assign) and len(node.targets) == 1 and isinstance(node.targets[0], ast.Name) \
                and node.targets[0].id == name and isinstance(node.value, ast.Constant) and isinstance(node.value.value, str):
            return node.value.value
    raise Untranslatable(f"constant {name} not found in {relfile}")


def translate_wellknown(repo=REPO):
    """-> Lean text: the set WELLKNOWN_DAV_PATHS and the predicate "this request is redirected"; the
    shape of `__call__` (redirect to `self._dav_root` with a 30x status, everything else handed to the
    inner application unchanged) is checked, not translated"""
    web = ast.parse(open(os.path.join(repo, "xandikos/web.py"), encoding="utf-8").read())
    paths = None
    for node in web.body:
        if isinstance(node, ast.Assign) and len(node.targets) == 1 and isinstance(node.targets[0], ast.Name) \
                and node.targets[0].id == "WELLKNOWN_DAV_PATHS" and isinstance(node.value, ast.Set):
            paths = []
            for el in node.value.elts:
                if not (isinstance(el, ast.Attribute) and isinstance(el.value, ast.Name) and el.value.id in ("caldav", "carddav")):
                    raise Untranslatable("WELLKNOWN_DAV_PATHS element shape")
                paths.append(_module_str_constant(repo, f"xandikos/{el.value.id}.py", el.attr))
    if paths is None:
        raise Untranslatable("WELLKNOWN_DAV_PATHS not found")
    src = ast.parse(open(os.path.join(repo, "xandikos/wsgi_helpers.py"), encoding="utf-8").read())
    cls = next((n for n in src.body if isinstance(n, ast.ClassDef) and n.name == "WellknownRedirector"), None)
    fn = next((n for n in (cls.body if cls else []) if isinstance(n, ast.FunctionDef) and n.name == "__call__"), None)
    if fn is None or [a.arg for a in fn.args.args] != ["self", "environ", "start_response"]:
        raise Untranslatable("WellknownRedirector.__call__ not found / signature changed")
    body = [b for b in fn.body if not (isinstance(b, ast.Expr) and isinstance(b.value, ast.Constant))]
    if len(body) != 3 or not isinstance(body[0], ast.Assign) or not isinstance(body[1], ast.If) or not isinstance(body[2], ast.Return):
        raise Untranslatable("__call__ body shape")
    spec = dict(params=[("environ", "environ")], pathctx=True,
                subscripts={("environ", "SCRIPT_NAME"): ("script", "str"), ("environ", "PATH_INFO"): ("path_info", "str")})
    cx = Ctx(spec)
    var = body[0].targets[0].id
    t, ty, m = tr_expr(body[0].value, cx)
    if ty != "str" or m:
        raise Untranslatable("path expression")
    test = body[1].test
    if not (isinstance(test, ast.Compare) and len(test.ops) == 1 and isinstance(test.ops[0], ast.In)
            and isinstance(test.left, ast.Name) and test.left.id == var
            and isinstance(test.comparators[0], ast.Name) and test.comparators[0].id == "WELLKNOWN_DAV_PATHS") or body[1].orelse:
        raise Untranslatable("redirect condition shape")
    ib = body[1].body
    ok = (len(ib) == 2 and isinstance(ib[0], ast.Expr) and isinstance(ib[0].value, ast.Call)
          and isinstance(ib[0].value.func, ast.Name) and ib[0].value.func.id == "start_response"
          and len(ib[0].value.args) == 2 and isinstance(ib[0].value.args[0], ast.Constant)
          and str(ib[0].value.args[0].value).startswith("30")
          and ast.unparse(ib[0].value.args[1]) == "[('Location', self._dav_root)]"
          and isinstance(ib[1], ast.Return) and ast.unparse(ib[1].value) == "[]")
    if not ok:
        raise Untranslatable("redirect branch shape (status / Location)")
    if ast.unparse(body[2].value) != "self._inner_app(environ, start_response)":
        raise Untranslatable("pass-through branch shape")
    rows = ", ".join(lean_str(p) for p in paths)
    return (f"/-- translated from `xandikos/web.py::WELLKNOWN_DAV_PATHS` -/\n"
            f"def wellknown_dav_paths : List (List Char) := [{rows}]\n\n"
            f"/-- translated from `xandikos/wsgi_helpers.py::WellknownRedirector.__call__`: `true` = answered with the "
            f"redirect to the DAV root, `false` = handed to the inner application unchanged -/\n"
            f"def wellknown_redirects (script : List Char) (path_info : List Char) : Bool :=\n"
            f"  let {var} := {t}\n  (List.elem {var} wellknown_dav_paths)\n")


# ---------------------------------------------------------------------------
# GitStore.iter_changes: a generator that diffs two listings through a dict
#
# The two `self.iter_with_etag(<ctag>)` calls become the list parameters `olds` / `news`; the prologue that
# materialises the empty tree for `old_ctag is None` is checked for its shape and left to the model
# (`Store.iterChanges`).  Everything from the dict comprehension on is translated statement by statement:
# `yield` appends to the output, `previous[name]` / `del previous[name]` are `Py.Dict.get` / `Py.Dict.del`
# (KeyError as a value), `assert` raises AssertionError, so the function lives in `Except PyErr`.

class DG:
    def __init__(self):
        self.types = {}      # python name -> sym | osym


def dg_expr(e, cx):
    """-> (text, type) with type in sym, osym, none, bool"""
    if isinstance(e, ast.Constant) and e.value is None:
        return ("none", "none")
    if isinstance(e, ast.Name):
        if e.id not in cx.types:
            raise Untranslatable(f"unknown name {e.id}")
        return (e.id, cx.types[e.id])
    if isinstance(e, ast.Compare) and len(e.ops) == 1:
        a, aty = dg_expr(e.left, cx)
        b, bty = dg_expr(e.comparators[0], cx)
        op = e.ops[0]
        if isinstance(op, (ast.Is, ast.IsNot)) and bty == "none" and aty == "osym":
            return (f"(Option.{'isNone' if isinstance(op, ast.Is) else 'isSome'} {a})", "bool")
        if isinstance(op, (ast.Eq, ast.NotEq)):
            def lift(t, ty):
                return t if ty == "osym" else ("none" if ty == "none" else f"(some {t})")
            if aty == bty == "sym":
                body = f"({a} == {b})"
            elif "bool" in (aty, bty):
                raise Untranslatable("comparison of a bool")
            else:
                body = f"({lift(a, aty)} == ({lift(b, bty)} : Option String))"
            return (body if isinstance(op, ast.Eq) else f"(!{body})", "bool")
    if isinstance(e, ast.BoolOp):
        parts = [dg_expr(v, cx) for v in e.values]
        if any(t != "bool" for _, t in parts):
            raise Untranslatable("and/or operand")
        return ("(" + (" && " if isinstance(e.op, ast.And) else " || ").join(t for t, _ in parts) + ")", "bool")
    if isinstance(e, ast.UnaryOp) and isinstance(e.op, ast.Not):
        t, ty = dg_expr(e.operand, cx)
        if ty != "bool":
            raise Untranslatable("not operand")
        return (f"(!{t})", "bool")
    raise Untranslatable(f"generator expression {ast.dump(e)[:70]}")


def dg_row(e, cx):
    """the yielded 4-tuple as a ChangeRow"""
    if not (isinstance(e, ast.Tuple) and len(e.elts) == 4):
        raise Untranslatable("yield of something that is not a 4-tuple")
    out = []
    for k, el in enumerate(e.elts):
        t, ty = dg_expr(el, cx)
        if k < 2:
            if ty != "sym":
                raise Untranslatable("name / content type slot")
            out.append(t)
        else:
            out.append(t if ty == "osym" else ("none" if ty == "none" else f"some {t}") if ty in ("sym", "none") else None)
            if out[-1] is None:
                raise Untranslatable("etag slot")
    return "(" + ", ".join(out) + ")"


def dg_stmts(stmts, cx, indent, at_end, dictvar):
    pad = "  " * indent
    if not stmts:
        return pad + at_end
    s, rest = stmts[0], stmts[1:]
    if isinstance(s, ast.Try):
        # try: (a, b) = d[k]   except KeyError: b = None   else: assert ...
        if not (len(s.body) == 1 and isinstance(s.body[0], ast.Assign) and isinstance(s.body[0].targets[0], ast.Tuple)
                and isinstance(s.body[0].value, ast.Subscript) and isinstance(s.body[0].value.value, ast.Name)
                and s.body[0].value.value.id == dictvar and isinstance(s.body[0].value.slice, ast.Name)
                and len(s.handlers) == 1 and isinstance(s.handlers[0].type, ast.Name) and s.handlers[0].type.id == "KeyError"
                and not s.finalbody):
            raise Untranslatable("try shape")
        tgt = [t.id for t in s.body[0].targets[0].elts]
        key = s.body[0].value.slice.id
        if len(tgt) != 2 or cx.types.get(key) != "sym":
            raise Untranslatable("dict lookup target")
        h = s.handlers[0].body
        if not (len(h) == 1 and isinstance(h[0], ast.Assign) and isinstance(h[0].targets[0], ast.Name)
                and isinstance(h[0].value, ast.Constant) and h[0].value.value is None and h[0].targets[0].id in tgt):
            raise Untranslatable("except KeyError body")
        ovar = h[0].targets[0].id            # the variable that is None when the key is missing
        saved = dict(cx.types)
        # except branch: only `ovar` is bound
        cx.types[ovar] = "osym"
        exc = dg_stmts(rest, cx, indent + 2, at_end, dictvar)
        cx.types = dict(saved)
        for t in tgt:
            cx.types[t] = "sym"
        cx.types[ovar] = "osym"
        body_else = list(s.orelse) + rest
        els = dg_stmts(body_else, cx, indent + 2, at_end, dictvar)
        cx.types = saved
        raw = ", ".join(t if t != ovar else t + "__v" for t in tgt)
        return (pad + f"(match Py.Dict.get {dictvar} {key} with\n{pad}  | none =>\n{pad}    let {ovar} : Option String := none\n{exc}\n"
                f"{pad}  | some ({raw}) =>\n{pad}    let {ovar} : Option String := some {ovar}__v\n{els})")
    if isinstance(s, ast.Assert):
        t, ty = dg_expr(s.test, cx)
        if ty != "bool":
            raise Untranslatable("assert test")
        return pad + f"(if !{t} then throw (Py.PyErr.raised \"AssertionError\" \"\") else\n{dg_stmts(rest, cx, indent + 1, at_end, dictvar)})"
    if isinstance(s, ast.If) and not s.orelse:
        t, ty = dg_expr(s.test, cx)
        if ty != "bool":
            raise Untranslatable("if test")
        thn = dg_stmts(list(s.body) + rest, cx, indent + 1, at_end, dictvar)
        els = dg_stmts(rest, cx, indent + 1, at_end, dictvar)
        return pad + f"(if {t} then\n{thn}\n{pad}else\n{els})"
    if isinstance(s, ast.Expr) and isinstance(s.value, ast.Yield):
        row = dg_row(s.value.value, cx)
        return pad + f"let out__ := out__ ++ [{row}]\n{dg_stmts(rest, cx, indent, at_end, dictvar)}"
    if isinstance(s, ast.Delete) and len(s.targets) == 1 and isinstance(s.targets[0], ast.Subscript) \
            and isinstance(s.targets[0].value, ast.Name) and s.targets[0].value.id == dictvar \
            and isinstance(s.targets[0].slice, ast.Name) and cx.types.get(s.targets[0].slice.id) == "sym":
        return pad + f"(Py.Dict.del {dictvar} {s.targets[0].slice.id} >>= fun {dictvar} =>\n{dg_stmts(rest, cx, indent + 1, at_end, dictvar)})"
    raise Untranslatable(f"generator statement {type(s).__name__}")


def translate_iter_changes(repo=REPO):
    src = ast.parse(open(os.path.join(repo, "xandikos/store/git.py"), encoding="utf-8").read())
    cls = next((n for n in src.body if isinstance(n, ast.ClassDef) and n.name == "GitStore"), None)
    fn = next((n for n in (cls.body if cls else []) if isinstance(n, ast.FunctionDef) and n.name == "iter_changes"), None)
    if fn is None or [a.arg for a in fn.args.args] != ["self", "old_ctag", "new_ctag"]:
        raise Untranslatable("GitStore.iter_changes not found / signature changed")
    body = [b for b in fn.body if not (isinstance(b, ast.Expr) and isinstance(b.value, ast.Constant))]
    if len(body) != 4:
        raise Untranslatable(f"iter_changes has {len(body)} top-level statements, 4 expected")
    pro, comp, loop1, loop2 = body
    want_pro = ("if old_ctag is None:\n    t = Tree()\n    self.repo.object_store.add_object(t)\n"
                "    old_ctag = t.id.decode('ascii')")
    if ast.unparse(pro) != want_pro:
        raise Untranslatable("prologue (empty tree for old_ctag is None) changed")

    def listing_call(e, arg):
        return (isinstance(e, ast.Call) and ast.unparse(e.func) == "self.iter_with_etag" and len(e.args) == 1
                and isinstance(e.args[0], ast.Name) and e.args[0].id == arg and not e.keywords)
    # previous = {name: (content_type, etag) for (name, content_type, etag) in self.iter_with_etag(old_ctag)}
    if not (isinstance(comp, ast.Assign) and isinstance(comp.targets[0], ast.Name) and isinstance(comp.value, ast.DictComp)
            and len(comp.value.generators) == 1 and not comp.value.generators[0].ifs
            and listing_call(comp.value.generators[0].iter, "old_ctag")):
        raise Untranslatable("dict comprehension shape")
    dictvar = comp.targets[0].id
    g = comp.value.generators[0]
    gt = [t.id for t in g.target.elts] if isinstance(g.target, ast.Tuple) else None
    if not gt or len(gt) != 3 or not all(isinstance(t, ast.Name) for t in g.target.elts):
        raise Untranslatable("comprehension target")
    k, v = comp.value.key, comp.value.value
    if not (isinstance(k, ast.Name) and k.id in gt and isinstance(v, ast.Tuple) and len(v.elts) == 2
            and all(isinstance(x, ast.Name) and x.id in gt for x in v.elts)):
        raise Untranslatable("comprehension key/value")
    comp_txt = (f"  let {dictvar} : Py.Dict (String × String) := Py.Dict.ofList (olds.map fun ({', '.join(gt)}) => "
                f"({k.id}, ({v.elts[0].id}, {v.elts[1].id})))")
    # loop 1
    if not (isinstance(loop1, ast.For) and isinstance(loop1.target, ast.Tuple) and len(loop1.target.elts) == 3
            and all(isinstance(t, ast.Name) for t in loop1.target.elts) and listing_call(loop1.iter, "new_ctag") and not loop1.orelse):
        raise Untranslatable("first loop shape")
    cx = DG()
    t1 = [t.id for t in loop1.target.elts]
    for t in t1:
        cx.types[t] = "sym"
    b1 = dg_stmts(list(loop1.body), cx, 2, f"iter_changes_loop1 rest__ {dictvar} out__", dictvar)
    # loop 2:  for name, (ct, etag) in previous.items()
    if not (isinstance(loop2, ast.For) and ast.unparse(loop2.iter) == f"{dictvar}.items()" and isinstance(loop2.target, ast.Tuple)
            and len(loop2.target.elts) == 2 and isinstance(loop2.target.elts[0], ast.Name)
            and isinstance(loop2.target.elts[1], ast.Tuple) and len(loop2.target.elts[1].elts) == 2 and not loop2.orelse):
        raise Untranslatable("second loop shape")
    cx2 = DG()
    n2 = loop2.target.elts[0].id
    v2 = [t.id for t in loop2.target.elts[1].elts]
    for t in [n2] + v2:
        cx2.types[t] = "sym"
    b2 = dg_stmts(list(loop2.body), cx2, 2, "iter_changes_loop2 rest__ out__", dictvar)
    D = "Py.Dict (String × String)"
    return (
        "/-- a listing entry `(name, content_type, etag)` and a yielded row `(name, content_type, old_etag, new_etag)` -/\n"
        "abbrev Entry := String × String × String\nabbrev ChangeRow := String × String × Option String × Option String\n\n"
        "/-- first loop of `GitStore.iter_changes`: the entries of the new listing -/\n"
        f"def iter_changes_loop1 : List Entry → {D} → List ChangeRow → Except Py.PyErr ({D} × List ChangeRow)\n"
        f"  | [], {dictvar}, out__ => pure ({dictvar}, out__)\n"
        f"  | ({', '.join(t1)}) :: rest__, {dictvar}, out__ =>\n{b1}\n\n"
        "/-- second loop: what is left in the dict -/\n"
        f"def iter_changes_loop2 : {D} → List ChangeRow → Except Py.PyErr (List ChangeRow)\n"
        "  | [], out__ => pure out__\n"
        f"  | ({n2}, ({', '.join(v2)})) :: rest__, out__ =>\n{b2}\n\n"
        "/-- translated from `xandikos/store/git.py::GitStore.iter_changes`; `olds` / `news` are what\n"
        "    `self.iter_with_etag(old_ctag)` / `self.iter_with_etag(new_ctag)` yield -/\n"
        "def iter_changes (olds news : List Entry) : Except Py.PyErr (List ChangeRow) :=\n"
        f"{comp_txt}\n"
        f"  iter_changes_loop1 news {dictvar} [] >>= fun ({dictvar}, out__) => iter_changes_loop2 {dictvar} out__\n")


# ---------------------------------------------------------------------------
# precondition gates of the request handlers (PUT, DELETE, GET/HEAD)
#
# In a handler, the statements `h = request.headers.get("<Header>", None)` and the `if <test>: return
# Response(status=<412 | 304>)` that follow them form the gate.  The tests are translated (Python's
# short-circuit and/or/not, truthiness of an Optional[str] header, `etag_matches` = the translated
# function of Generated/Etag.lean, a `None` passed where it would be dereferenced = AttributeError);
# the gate is "some test fires", in the handler's order.  Between the first and the last statement of
# the gate nothing else may occur.

GATES = [
    dict(lean="put_refuses", file="xandikos/webdav.py", cls="PutMethod", func="handle", status="412"),
    dict(lean="delete_refuses", file="xandikos/webdav.py", cls="DeleteMethod", func="handle", status="412"),
    dict(lean="get_not_modified", file="xandikos/webdav.py", cls=None, func="_do_get", status="304"),
]


def gate_expr(e, hdrs):
    """-> Lean text of type Except PyErr Bool"""
    if isinstance(e, ast.Name):
        if e.id in hdrs or e.id == "current_etag":
            return f"(pure (Py.otruthy {e.id}))"
        raise Untranslatable(f"gate: unknown name {e.id}")
    if isinstance(e, ast.Compare) and len(e.ops) == 1 and isinstance(e.ops[0], (ast.Is, ast.IsNot)) \
            and isinstance(e.left, ast.Name) and (e.left.id in hdrs or e.left.id == "current_etag") \
            and isinstance(e.comparators[0], ast.Constant) and e.comparators[0].value is None:
        return f"(pure (Option.{'isNone' if isinstance(e.ops[0], ast.Is) else 'isSome'} {e.left.id}))"
    if isinstance(e, ast.UnaryOp) and isinstance(e.op, ast.Not):
        return f"(Py.notM {gate_expr(e.operand, hdrs)})"
    if isinstance(e, ast.BoolOp):
        fn = "Py.andM" if isinstance(e.op, ast.And) else "Py.orM"
        parts = [gate_expr(v, hdrs) for v in e.values]
        acc = parts[-1]
        for t in reversed(parts[:-1]):
            acc = f"({fn} {t} {acc})"
        return acc
    if isinstance(e, ast.Call) and isinstance(e.func, ast.Name) and e.func.id == "etag_matches" and len(e.args) == 2 \
            and not e.keywords and all(isinstance(a, ast.Name) for a in e.args):
        a, b = e.args[0].id, e.args[1].id
        if not ((a in hdrs or a == "current_etag") and (b in hdrs or b == "current_etag")):
            raise Untranslatable("gate: etag_matches arguments")
        return f"(Py.strArg {a} >>= fun s__ => pure (etag_matches s__ {b}))"
    raise Untranslatable(f"gate expression {ast.dump(e)[:70]}")


def translate_gate(g, repo=REPO):
    region, hdrs, tests = gate_region(g, repo)
    want_order = [h for h in ("If-Match", "If-None-Match") if h in hdrs.values()]
    names = [v for h in want_order for v, hh in hdrs.items() if hh == h]
    body = "(pure false)"
    for t in reversed(tests):
        body = f"({gate_expr(t, hdrs)} >>= fun c__ => if c__ then (pure true) else\n    {body})"
    params = " ".join(f"({n} : Option (List Char))" for n in names + ["current_etag"])
    doc = ", ".join(f"`{v}` = {h}" for v, h in hdrs.items())
    return (f"/-- translated from the precondition gate of `{g['file']}::{(g['cls'] + '.') if g['cls'] else ''}{g['func']}` "
            f"({doc}): `true` = answered {g['status']} -/\n"
            f"def {g['lean']} {params} : Except Py.PyErr Bool :=\n  {body}\n")


def gate_region(g, repo=REPO):
    """-> (statements of the gate, {variable: header}, [tests])"""
    src = ast.parse(open(os.path.join(repo, g["file"]), encoding="utf-8").read())
    scope = src.body
    if g["cls"]:
        cls = next((n for n in src.body if isinstance(n, ast.ClassDef) and n.name == g["cls"]), None)
        if cls is None:
            raise Untranslatable(f"class {g['cls']} not found")
        scope = cls.body
    fn = next((n for n in scope if isinstance(n, (ast.FunctionDef, ast.AsyncFunctionDef)) and n.name == g["func"]), None)
    if fn is None:
        raise Untranslatable(f"{g['func']} not found")

    def header_assign(s):
        if isinstance(s, ast.Assign) and len(s.targets) == 1 and isinstance(s.targets[0], ast.Name) \
                and isinstance(s.value, ast.Call) and ast.unparse(s.value.func) == "request.headers.get" \
                and len(s.value.args) == 2 and isinstance(s.value.args[0], ast.Constant) \
                and s.value.args[0].value in ("If-Match", "If-None-Match") \
                and isinstance(s.value.args[1], ast.Constant) and s.value.args[1].value is None:
            return s.targets[0].id, s.value.args[0].value
        return None

    def gate_if(s):
        if isinstance(s, ast.If) and not s.orelse and len(s.body) == 1 and isinstance(s.body[0], ast.Return) \
                and isinstance(s.body[0].value, ast.Call) and ast.unparse(s.body[0].value.func) == "Response":
            for kw in s.body[0].value.keywords:
                if kw.arg == "status" and isinstance(kw.value, ast.Constant) and str(kw.value.value).startswith(g["status"]):
                    return True
        return False
    idx = [k for k, s in enumerate(fn.body) if header_assign(s) or gate_if(s)]
    if not idx:
        raise Untranslatable("no gate found")
    region = fn.body[idx[0]: idx[-1] + 1]
    hdrs, tests = {}, []
    for s in region:
        ha = header_assign(s)
        if ha:
            hdrs[ha[0]] = ha[1]
        elif gate_if(s):
            tests.append(s.test)
        else:
            raise Untranslatable(f"statement inside the gate: {ast.unparse(s)[:60]}")
    if not tests:
        raise Untranslatable("gate without a test")
    return region, hdrs, tests


# ---------------------------------------------------------------------------
# webdav._get_resources_by_hrefs: the two loops of multiget with their dict of lists

def translate_resources_by_hrefs(repo=REPO):
    src = ast.parse(open(os.path.join(repo, "xandikos/webdav.py"), encoding="utf-8").read())
    fn = next((n for n in src.body if isinstance(n, ast.FunctionDef) and n.name == "_get_resources_by_hrefs"), None)
    if fn is None or [a.arg for a in fn.args.args] != ["backend", "environ", "hrefs"]:
        raise Untranslatable("_get_resources_by_hrefs not found / signature changed")
    # backend.get_resources(paths) is `for relpath in relpaths: yield relpath, self.get_resource(relpath)` and the
    # xandikos backend does not override it
    be = next((n for n in src.body if isinstance(n, ast.ClassDef) and n.name == "Backend"), None)
    gr = next((n for n in (be.body if be else []) if isinstance(n, ast.FunctionDef) and n.name == "get_resources"), None)
    gr_body = [b for b in (gr.body if gr else []) if not (isinstance(b, ast.Expr) and isinstance(b.value, ast.Constant))]
    if gr is None or len(gr_body) != 1 or ast.unparse(gr_body[0]) != "for relpath in relpaths:\n    yield (relpath, self.get_resource(relpath))":
        raise Untranslatable("Backend.get_resources changed")
    web = ast.parse(open(os.path.join(repo, "xandikos/web.py"), encoding="utf-8").read())
    for n in ast.walk(web):
        if isinstance(n, (ast.FunctionDef, ast.AsyncFunctionDef)) and n.name == "get_resources":
            raise Untranslatable("web.py overrides get_resources")
    body = [b for b in fn.body if not (isinstance(b, ast.Expr) and isinstance(b.value, ast.Constant))]
    if len(body) != 3:
        raise Untranslatable(f"{len(body)} top-level statements, 3 expected")
    init, loop1, loop2 = body
    if not ((isinstance(init, ast.AnnAssign) and isinstance(init.target, ast.Name) and isinstance(init.value, ast.Dict) and not init.value.keys)
            or (isinstance(init, ast.Assign) and isinstance(init.value, ast.Dict) and not init.value.keys)):
        raise Untranslatable("dict initialisation")
    d = init.target.id if isinstance(init, ast.AnnAssign) else init.targets[0].id
    # loop 1
    if not (isinstance(loop1, ast.For) and isinstance(loop1.target, ast.Name) and ast.unparse(loop1.iter) == "dict.fromkeys(hrefs)"
            and not loop1.orelse and len(loop1.body) == 2):
        raise Untranslatable("first loop shape")
    h = loop1.target.id
    a, br = loop1.body
    if not (isinstance(a, ast.Assign) and isinstance(a.targets[0], ast.Name) and ast.unparse(a.value) == f"href_to_path(environ, {h})"):
        raise Untranslatable("path assignment")
    pv = a.targets[0].id
    if not (isinstance(br, ast.If) and isinstance(br.test, ast.Compare) and len(br.test.ops) == 1
            and isinstance(br.test.left, ast.Name) and br.test.left.id == pv
            and isinstance(br.test.comparators[0], ast.Constant) and br.test.comparators[0].value is None
            and isinstance(br.test.ops[0], (ast.Is, ast.IsNot)) and len(br.body) == 1 and len(br.orelse) == 1):
        raise Untranslatable("branch on the path")
    some_branch, none_branch = (br.body[0], br.orelse[0]) if isinstance(br.test.ops[0], ast.IsNot) else (br.orelse[0], br.body[0])

    def tr_branch(s, path_bound):
        if isinstance(s, ast.Expr) and isinstance(s.value, ast.Call) and ast.unparse(s.value) == f"{d}.setdefault({pv}, []).append({h})" and path_bound:
            return f"let {d} := Py.Dict.setdefaultAppend {d} {pv} {h}\n        resources_by_hrefs_loop1 script rest__ {d} out__"
        if isinstance(s, ast.Expr) and isinstance(s.value, ast.Yield) and isinstance(s.value.value, ast.Tuple) and len(s.value.value.elts) == 2:
            e0, e1 = s.value.value.elts
            if isinstance(e0, ast.Name) and e0.id == h and isinstance(e1, ast.Constant) and e1.value is None:
                return f"let out__ := out__ ++ [({h}, none)]\n        resources_by_hrefs_loop1 script rest__ {d} out__"
        raise Untranslatable(f"first-loop branch: {ast.unparse(s)[:60]}")
    sb, nb = tr_branch(some_branch, True), tr_branch(none_branch, False)
    # loop 2
    if not (isinstance(loop2, ast.For) and isinstance(loop2.target, ast.Tuple) and len(loop2.target.elts) == 2
            and all(isinstance(t, ast.Name) for t in loop2.target.elts) and ast.unparse(loop2.iter) == f"backend.get_resources({d})"
            and not loop2.orelse and len(loop2.body) == 1 and isinstance(loop2.body[0], ast.For)):
        raise Untranslatable("second loop shape")
    rp, rs = (t.id for t in loop2.target.elts)
    inner = loop2.body[0]
    if not (isinstance(inner.target, ast.Name) and ast.unparse(inner.iter) == f"{d}[{rp}]" and len(inner.body) == 1 and not inner.orelse
            and isinstance(inner.body[0], ast.Expr) and isinstance(inner.body[0].value, ast.Yield)
            and isinstance(inner.body[0].value.value, ast.Tuple) and len(inner.body[0].value.value.elts) == 2):
        raise Untranslatable("inner loop shape")
    ih = inner.target.id
    y0, y1 = inner.body[0].value.value.elts
    names = {ih: ih, rp: rp, rs: f"(lookup {rp})"}
    if not (isinstance(y0, ast.Name) and isinstance(y1, ast.Name) and y0.id in (ih, rp) and y1.id == rs):
        raise Untranslatable("yield of the second loop")
    row = f"({names[y0.id]}, {names[y1.id]})"
    return (
        "/-- first loop of `webdav._get_resources_by_hrefs` (over `dict.fromkeys(hrefs)`) -/\n"
        "def resources_by_hrefs_loop1 {ρ : Type} (script : String) : List String → Py.Dict (List String) → List (String × Option ρ) →\n"
        "    Py.Dict (List String) × List (String × Option ρ)\n"
        f"  | [], {d}, out__ => ({d}, out__)\n"
        f"  | {h} :: rest__, {d}, out__ =>\n"
        f"    let {pv} : Option String := (href_to_path script.toList {h}.toList).map String.ofList\n"
        f"    (match {pv} with\n"
        f"      | some {pv} =>\n        {sb}\n"
        f"      | none =>\n        {nb})\n\n"
        "/-- second loop: `backend.get_resources(paths)` yields `(relpath, get_resource(relpath))` per key -/\n"
        "def resources_by_hrefs_loop2 {ρ : Type} (lookup : String → Option ρ) (" + d + " : Py.Dict (List String)) :\n"
        "    List String → List (String × Option ρ) → Except Py.PyErr (List (String × Option ρ))\n"
        "  | [], out__ => pure out__\n"
        f"  | {rp} :: rest__, out__ =>\n"
        f"    (match Py.Dict.get {d} {rp} with\n"
        f"      | none => throw (Py.PyErr.raised \"KeyError\" {rp})\n"
        f"      | some hs__ => resources_by_hrefs_loop2 lookup {d} rest__ (out__ ++ hs__.map fun {ih} => {row}))\n\n"
        "/-- translated from `xandikos/webdav.py::_get_resources_by_hrefs`; `script` is `environ[\"SCRIPT_NAME\"]`,\n"
        "    `lookup` is `backend.get_resource` -/\n"
        "def resources_by_hrefs {ρ : Type} (lookup : String → Option ρ) (script : String) (hrefs : List String) :\n"
        "    Except Py.PyErr (List (String × Option ρ)) :=\n"
        f"  let ({d}, out__) := resources_by_hrefs_loop1 script (Py.Dict.fromkeys hrefs) [] []\n"
        f"  resources_by_hrefs_loop2 lookup {d} ({d}.map Prod.fst) out__\n")


# ---------------------------------------------------------------------------
# how a store exception becomes an HTTP answer: the `except` tables of web.py (set_body, create_member)
# and of the PUT / POST handlers of webdav.py, in the order they are written

def _find_method(tree, cls, name):
    c = next((n for n in tree.body if isinstance(n, ast.ClassDef) and n.name == cls), None)
    f = next((n for n in (c.body if c else []) if isinstance(n, (ast.FunctionDef, ast.AsyncFunctionDef)) and n.name == name), None)
    if f is None:
        raise Untranslatable(f"{cls}.{name} not found")
    return f


def _try_calling(fn, attr):
    """the `try` statement of `fn` whose body calls `.<attr>(…)` (or passes `.<attr>` to to_thread)"""
    for node in ast.walk(fn):
        if isinstance(node, ast.Try):
            src = "\n".join(ast.unparse(b) for b in node.body)
            if "." + attr in src:
                return node
    raise Untranslatable(f"no try around {attr} in {fn.name}")


def _inner_table(tr):
    rows = []
    for h in tr.handlers:
        if not (isinstance(h.type, ast.Name) and len(h.body) == 1 and isinstance(h.body[0], ast.Raise)
                and isinstance(h.body[0].exc, ast.Call)):
            raise Untranslatable("except clause shape (inner)")
        call = h.body[0].exc
        raised = ast.unparse(call.func).split(".")[-1]
        pre = ""
        if raised == "PreconditionFailure":
            a0 = call.args[0] if call.args else None
            # "{%s}NAME" % caldav.NAMESPACE
            if not (isinstance(a0, ast.BinOp) and isinstance(a0.op, ast.Mod) and isinstance(a0.left, ast.Constant)
                    and isinstance(a0.left.value, str) and a0.left.value.startswith("{%s}")):
                raise Untranslatable("precondition name shape")
            pre = a0.left.value[len("{%s}"):]
        elif call.args or call.keywords:
            raise Untranslatable("raised exception takes arguments")
        rows.append((h.type.id, raised, pre))
    return rows


def _outer_table(tr):
    rows = []
    for h in tr.handlers:
        if not (isinstance(h.type, ast.Name) and len(h.body) == 1 and isinstance(h.body[0], ast.Return)
                and isinstance(h.body[0].value, ast.Call)):
            raise Untranslatable("except clause shape (outer)")
        call = h.body[0].value
        f = ast.unparse(call.func)
        if f == "Response":
            st = next((kw.value.value for kw in call.keywords if kw.arg == "status" and isinstance(kw.value, ast.Constant)), None)
            if st is None:
                raise Untranslatable("Response without a literal status")
            ans = str(st).split(" ")[0]
        elif f == "_send_simple_dav_error":
            st = call.args[1].value if len(call.args) > 1 and isinstance(call.args[1], ast.Constant) else ""
            err = next((ast.unparse(kw.value) for kw in call.keywords if kw.arg == "error"), "")
            if not str(st).startswith("412") or err != f"ET.Element({h.name}.precondition)":
                raise Untranslatable("dav error shape")
            ans = "dav412"
        elif f == "_send_method_not_allowed":
            ans = "405"
        else:
            raise Untranslatable(f"answer {f}")
        rows.append((h.type.id, ans))
    return rows


def translate_exception_tables(repo=REPO):
    web = ast.parse(open(os.path.join(repo, "xandikos/web.py"), encoding="utf-8").read())
    dav = ast.parse(open(os.path.join(repo, "xandikos/webdav.py"), encoding="utf-8").read())
    store = ast.parse(open(os.path.join(repo, "xandikos/store/__init__.py"), encoding="utf-8").read())
    bases = []
    for tree in (store, dav):
        for n in tree.body:
            if isinstance(n, ast.ClassDef) and len(n.bases) == 1 and isinstance(n.bases[0], ast.Name) \
                    and (n.name.endswith("Error") or n.name in ("NoSuchItem", "InvalidETag", "InvalidCTag", "InvalidFileContents",
                                                              "PreconditionFailure", "InsufficientStorage", "ResourceLocked")):
                bases.append((n.name, n.bases[0].id))
    inner_set = _inner_table(_try_calling(_find_method(web, "ObjectResource", "set_body"), "import_one"))
    inner_create = _inner_table(_try_calling(_find_method(web, "StoreBasedCollection", "create_member"), "import_one"))
    put = _find_method(dav, "PutMethod", "handle")
    outer_update = _outer_table(_try_calling(put, "set_body"))
    outer_create = _outer_table(_try_calling(put, "create_member"))
    outer_post = _outer_table(_try_calling(_find_method(dav, "PostMethod", "handle"), "create_member"))

    def t3(rows):
        return "[" + ", ".join(f'("{a}", "{b}", "{c}")' for a, b, c in rows) + "]"

    def t2(rows):
        return "[" + ", ".join(f'("{a}", "{b}")' for a, b in rows) + "]"
    return (
        "/-- exception classes and their base class (`xandikos/store/__init__.py`, `xandikos/webdav.py`) -/\n"
        f"def exception_bases : List (String × String) := {t2(bases)}\n\n"
        "/-- `web.ObjectResource.set_body`: (caught, raised instead, precondition) in the order of the except clauses -/\n"
        f"def set_body_raises : List (String × String × String) := {t3(inner_set)}\n\n"
        "/-- `web.StoreBasedCollection.create_member` -/\n"
        f"def create_member_raises : List (String × String × String) := {t3(inner_create)}\n\n"
        "/-- `webdav.PutMethod.handle`, update of an existing member: (caught, answer); `dav412` is the 207 that wraps\n"
        "    412 with `e.precondition` as its error element -/\n"
        f"def put_update_answers : List (String × String) := {t2(outer_update)}\n\n"
        "/-- `webdav.PutMethod.handle`, creation of a member -/\n"
        f"def put_create_answers : List (String × String) := {t2(outer_create)}\n\n"
        "/-- `webdav.PostMethod.handle` -/\n"
        f"def post_answers : List (String × String) := {t2(outer_post)}\n")


# ---------------------------------------------------------------------------
# AutoIndexManager.find_present_keys: nested loops over several accumulators
#
# A block of assignments, `x.append/extend/add`, `self.desired[k] += 1`, `if` and `for` (no break /
# continue / return inside the loops) is a state transformer over the variables it assigns: the
# variables become the fields of a structure, every statement a `let s := …`, every `for` a
# `List.foldl`.  Sets are lists without duplicates (`Py.setAdd`, `Py.setUnion`), the
# `defaultdict(lambda: 0)` is a `Map Nat` read with default 0.

class IB:
    def __init__(self, fields, params, loopvars=None):
        self.fields = fields          # name -> type  (state)
        self.params = params          # python expression text -> (lean name, type)
        self.loopvars = dict(loopvars or {})


def ib_expr(e, cx):
    """-> (text, type)"""
    src = ast.unparse(e)
    if src in cx.params:
        return cx.params[src]
    if isinstance(e, ast.Name):
        if e.id in cx.loopvars:
            return (e.id, cx.loopvars[e.id])
        if e.id in cx.fields:
            return (f"s.{e.id}", cx.fields[e.id])
        raise Untranslatable(f"unknown name {e.id}")
    if isinstance(e, ast.Constant) and isinstance(e.value, bool):
        return ("true" if e.value else "false", "bool")
    if isinstance(e, ast.Constant) and isinstance(e.value, int):
        return (str(e.value), "nat")
    if isinstance(e, ast.UnaryOp) and isinstance(e.op, ast.Not):
        t, ty = ib_expr(e.operand, cx)
        if ty == "bool":
            return (f"(!{t})", "bool")
        if ty in ("strlist", "strset"):
            return (f"(List.isEmpty {t})", "bool")
        raise Untranslatable(f"not on {ty}")
    if isinstance(e, ast.Subscript) and ast.unparse(e.value) in cx.params and cx.params[ast.unparse(e.value)][1] == "natmap-state":
        k, kty = ib_expr(e.slice, cx)
        if kty != "sym":
            raise Untranslatable("defaultdict key")
        return (f"((s.desired[{k}]?).getD 0)", "nat")
    if isinstance(e, ast.Compare) and len(e.ops) == 1:
        a, aty = ib_expr(e.left, cx)
        b, bty = ib_expr(e.comparators[0], cx)
        op = e.ops[0]
        if isinstance(op, ast.In) and aty == "sym" and bty in ("strlist", "strset"):
            return (f"(List.contains {b} {a})", "bool")
        if isinstance(op, ast.Gt) and aty == "nat" and bty == "nat":
            return (f"(decide ({a} > {b}))", "bool")
    raise Untranslatable(f"block expression {src[:60]}")


def ib_truthy(e, cx):
    t, ty = ib_expr(e, cx)
    if ty == "bool":
        return t
    if ty in ("strlist", "strset"):
        return f"(!(List.isEmpty {t}))"
    raise Untranslatable(f"truthiness of {ty}")


def ib_stmts(stmts, cx, indent):
    """-> Lean term (a state), given the current state `s`"""
    pad = "  " * indent
    out = []
    for st in stmts:
        if isinstance(st, ast.Expr) and isinstance(st.value, ast.Call) and ast.unparse(st.value.func).startswith("logging."):
            continue
        if isinstance(st, ast.Assign) and len(st.targets) == 1 and isinstance(st.targets[0], ast.Name) and st.targets[0].id in cx.fields:
            t, ty = ib_expr(st.value, cx)
            if ty != cx.fields[st.targets[0].id]:
                raise Untranslatable("assignment type")
            out.append(f"{{ s with {st.targets[0].id} := {t} }}")
        elif isinstance(st, ast.Expr) and isinstance(st.value, ast.Call) and isinstance(st.value.func, ast.Attribute) \
                and isinstance(st.value.func.value, ast.Name) and st.value.func.value.id in cx.fields and len(st.value.args) == 1:
            v, m = st.value.func.value.id, st.value.func.attr
            t, ty = ib_expr(st.value.args[0], cx)
            fty = cx.fields[v]
            if m == "append" and fty == "strlist" and ty == "sym":
                out.append(f"{{ s with {v} := s.{v} ++ [{t}] }}")
            elif m == "extend" and fty == "strlist" and ty == "strlist":
                out.append(f"{{ s with {v} := s.{v} ++ {t} }}")
            elif m == "add" and fty == "strset" and ty == "sym":
                out.append(f"{{ s with {v} := Py.setAdd s.{v} {t} }}")
            else:
                raise Untranslatable(f"{v}.{m}({ty})")
        elif isinstance(st, ast.AugAssign) and isinstance(st.op, ast.Add) and isinstance(st.target, ast.Subscript) \
                and ast.unparse(st.target.value) in cx.params and cx.params[ast.unparse(st.target.value)][1] == "natmap-state" \
                and isinstance(st.value, ast.Constant) and st.value.value == 1:
            k, kty = ib_expr(st.target.slice, cx)
            if kty != "sym":
                raise Untranslatable("defaultdict key")
            out.append(f"{{ s with desired := s.desired.insert {k} (((s.desired[{k}]?).getD 0) + 1) }}")
        elif isinstance(st, ast.If) and not st.orelse:
            c = ib_truthy(st.test, cx)
            body = ib_stmts(st.body, cx, indent + 1)
            out.append(f"(if {c} then\n{body}\n{pad}  else s)")
        elif isinstance(st, ast.For) and isinstance(st.target, ast.Name) and not st.orelse:
            it, ity = ib_expr(st.iter, cx)
            elem = {"strlist": "sym", "strlistlist": "strlist"}.get(ity)
            if elem is None:
                raise Untranslatable(f"for over {ity}")
            saved = dict(cx.loopvars)
            cx.loopvars[st.target.id] = elem
            body = ib_stmts(st.body, cx, indent + 2)
            cx.loopvars = saved
            out.append(f"(List.foldl (fun s {st.target.id} =>\n{body}) s {it})")
        else:
            raise Untranslatable(f"block statement {ast.unparse(st)[:60]}")
    text = ""
    for o in out:
        text += f"{pad}let s := {o}\n"
    return text + f"{pad}s"


def translate_find_present_keys(repo=REPO):
    src = ast.parse(open(os.path.join(repo, "xandikos/store/index.py"), encoding="utf-8").read())
    fn = _find_method(src, "AutoIndexManager", "find_present_keys")
    if [a.arg for a in fn.args.args] != ["self", "necessary_keys"]:
        raise Untranslatable("signature changed")
    # the counters are a defaultdict(lambda: 0) and the threshold an attribute set in __init__
    init = _find_method(src, "AutoIndexManager", "__init__")
    isrc = ast.unparse(init)
    if "self.desired: dict[IndexKey, int] = collections.defaultdict(lambda: 0)" not in isrc or "self.indexing_threshold = threshold" not in isrc:
        raise Untranslatable("AutoIndexManager.__init__ changed")
    body = [b for b in fn.body if not (isinstance(b, ast.Expr) and isinstance(b.value, ast.Constant))]
    # prologue
    k = next((j for j, b in enumerate(body) if isinstance(b, ast.For)), None)
    if k is None:
        raise Untranslatable("no loop")
    fields = {"found": "bool", "desired": "natmap"}
    params = {"self.index.available_keys()": ("available_keys", "strlist"), "self.indexing_threshold": ("indexing_threshold", "nat"),
              "necessary_keys": ("necessary_keys", "strlistlist"), "self.desired": ("s.desired", "natmap-state")}
    order = []
    for b in body[:k]:
        tgt = b.target if isinstance(b, ast.AnnAssign) else (b.targets[0] if isinstance(b, ast.Assign) and len(b.targets) == 1 else None)
        if not isinstance(tgt, ast.Name):
            raise Untranslatable("prologue statement")
        v = ast.unparse(b.value)
        if v == "self.index.available_keys()":
            params[tgt.id] = ("available_keys", "strlist")
        elif v == "[]":
            fields[tgt.id] = "strlist"
            order.append(tgt.id)
        elif v == "set()":
            fields[tgt.id] = "strset"
            order.append(tgt.id)
        else:
            raise Untranslatable(f"prologue value {v}")
    cx = IB(fields, params)
    loop_txt = ib_stmts([body[k]], cx, 1)
    # epilogue: if not missing: return needed / if new: reset(set(available) | new) / return None
    epi = [b for b in body[k + 1:]]
    if len(epi) != 3:
        raise Untranslatable("epilogue length")
    r1, r2, r3 = epi
    if not (isinstance(r1, ast.If) and not r1.orelse and len(r1.body) == 1 and isinstance(r1.body[0], ast.Return)
            and isinstance(r1.body[0].value, ast.Name) and r1.body[0].value.id in fields):
        raise Untranslatable("first return")
    c1 = ib_truthy(r1.test, cx)
    ret1 = r1.body[0].value.id
    r2body = [b for b in r2.body if not (isinstance(b, ast.Expr) and isinstance(b.value, ast.Call) and ast.unparse(b.value.func).startswith("logging."))] \
        if isinstance(r2, ast.If) else None
    if not (isinstance(r2, ast.If) and not r2.orelse and len(r2body) == 1 and isinstance(r2body[0], ast.Expr)
            and isinstance(r2body[0].value, ast.Call) and ast.unparse(r2body[0].value.func) == "self.index.reset"):
        raise Untranslatable("reset statement")
    c2 = ib_truthy(r2.test, cx)
    arg = r2body[0].value.args[0]
    if not (isinstance(arg, ast.BinOp) and isinstance(arg.op, ast.BitOr) and ast.unparse(arg.left) == "set(self.index.available_keys())"
            and isinstance(arg.right, ast.Name) and fields.get(arg.right.id) == "strset"):
        raise Untranslatable("reset argument")
    if not (isinstance(r3, ast.Return) and isinstance(r3.value, ast.Constant) and r3.value.value is None):
        raise Untranslatable("final return")
    flds = "\n".join(f"  {n} : {'List String' if fields[n] in ('strlist', 'strset') else 'Bool' if fields[n] == 'bool' else 'Map Nat'}"
                     + (" := []" if fields[n] in ("strlist", "strset") else " := false" if fields[n] == "bool" else "")
                     for n in order + ["found", "desired"])
    return (
        "/-- the variables `AutoIndexManager.find_present_keys` assigns -/\n"
        f"structure FpkState where\n{flds}\n\n"
        "/-- translated from `xandikos/store/index.py::AutoIndexManager.find_present_keys`: the loops -/\n"
        "def find_present_keys_loops (available_keys : List String) (indexing_threshold : Nat) (necessary_keys : List (List String))\n"
        f"    (s : FpkState) : FpkState :=\n{loop_txt}\n\n"
        "/-- …and what it returns: the counters afterwards, the result (`some keys`: use the index; `none`), and the\n"
        "    argument of `self.index.reset(…)` when it is called -/\n"
        "def find_present_keys (available_keys : List String) (indexing_threshold : Nat) (desired : Map Nat)\n"
        "    (necessary_keys : List (List String)) : Map Nat × Option (List String) × Option (List String) :=\n"
        "  let s := find_present_keys_loops available_keys indexing_threshold necessary_keys { desired := desired }\n"
        f"  if {c1} then (s.desired, some s.{ret1}, none)\n"
        f"  else if {c2} then (s.desired, none, some (Py.setUnion available_keys s.{arg.right.id}))\n"
        "  else (s.desired, none, none)\n")


# ---------------------------------------------------------------------------
# the store's own precondition gate: `_check_duplicate` (git and vdir) and `_forget_uid`
#
# `self._scan_uids()` is the refresh of the cache (modelled separately, `scan_is_exact`): the map it leaves
# behind is the parameter `uid_to_fname`; `self._get_etag(name)` is the parameter `cur` (`none` = KeyError).

def _uid_lookup_try(s, mapattr, key):
    """try: (a, _) = self.<mapattr>[<key>]  -> (name bound to the first component) or None"""
    if isinstance(s, ast.Try) and len(s.body) == 1 and isinstance(s.body[0], ast.Assign) \
            and isinstance(s.body[0].targets[0], ast.Tuple) and len(s.body[0].targets[0].elts) == 2 \
            and ast.unparse(s.body[0].value) == f"self.{mapattr}[{key}]" and len(s.handlers) == 1 \
            and isinstance(s.handlers[0].type, ast.Name) and s.handlers[0].type.id == "KeyError" and not s.finalbody:
        return s.body[0].targets[0].elts[0].id
    return None


def translate_check_duplicate(file, cls, lean, repo=REPO):
    fn = _find_method(ast.parse(open(os.path.join(repo, file), encoding="utf-8").read()), cls, "_check_duplicate")
    if [a.arg for a in fn.args.args] != ["self", "uid", "name", "replace_etag"]:
        raise Untranslatable("signature changed")
    body = [b for b in fn.body if not (isinstance(b, ast.Expr) and isinstance(b.value, ast.Constant))]
    if len(body) != 4:
        raise Untranslatable(f"{len(body)} statements, 4 expected")
    guard, tr_etag, cond, ret = body
    # 1. if uid is not None and self._check_for_duplicate_uids: self._scan_uids(); try … else: if existing != name: raise
    if not (isinstance(guard, ast.If) and not guard.orelse and ast.unparse(guard.test) == "uid is not None and self._check_for_duplicate_uids"
            and len(guard.body) == 2 and ast.unparse(guard.body[0]) == "self._scan_uids()"):
        raise Untranslatable("UID guard shape")
    tr = guard.body[1]
    ex = _uid_lookup_try(tr, "_uid_to_fname", "uid")
    if ex is None or not (len(tr.handlers[0].body) == 1 and isinstance(tr.handlers[0].body[0], ast.Pass)) or len(tr.orelse) != 1:
        raise Untranslatable("UID lookup shape")
    inner = tr.orelse[0]
    if not (isinstance(inner, ast.If) and not inner.orelse and isinstance(inner.test, ast.Compare) and len(inner.test.ops) == 1
            and isinstance(inner.test.ops[0], (ast.NotEq, ast.Eq)) and {ast.unparse(inner.test.left), ast.unparse(inner.test.comparators[0])} == {ex, "name"}
            and len(inner.body) == 1 and isinstance(inner.body[0], ast.Raise) and ast.unparse(inner.body[0].exc.func) == "DuplicateUidError"):
        raise Untranslatable("duplicate test shape")
    cmp1 = f"({ex} != name)" if isinstance(inner.test.ops[0], ast.NotEq) else f"({ex} == name)"
    # 2. try: etag = self._get_etag(name) except KeyError: etag = None
    if not (isinstance(tr_etag, ast.Try) and len(tr_etag.body) == 1 and ast.unparse(tr_etag.body[0]) == "etag = self._get_etag(name)"
            and len(tr_etag.handlers) == 1 and ast.unparse(tr_etag.handlers[0].type) == "KeyError"
            and len(tr_etag.handlers[0].body) == 1 and ast.unparse(tr_etag.handlers[0].body[0]) == "etag = None"
            and not tr_etag.orelse and not tr_etag.finalbody):
        raise Untranslatable("current-etag shape")
    # 3. if <test over replace_etag, etag>: raise InvalidETag
    if not (isinstance(cond, ast.If) and not cond.orelse and len(cond.body) == 1 and isinstance(cond.body[0], ast.Raise)
            and ast.unparse(cond.body[0].exc.func) == "InvalidETag"):
        raise Untranslatable("etag test shape")
    cx = DG()
    cx.types = {"replace_etag": "osym", "etag": "osym"}
    t2, ty2 = dg_expr(cond.test, cx)
    if ty2 != "bool":
        raise Untranslatable("etag test type")
    if ast.unparse(ret) != "return etag":
        raise Untranslatable("return value")
    return (
        f"/-- translated from `{file}::{cls}._check_duplicate`; `uid_to_fname` is `self._uid_to_fname` after\n"
        "    `self._scan_uids()`, `etag` what `self._get_etag(name)` gives (`none`: KeyError) -/\n"
        f"def {lean} (check_for_duplicate_uids : Bool) (uid_to_fname : Map (String × String)) (etag : Option String)\n"
        "    (uid : Option String) (name : String) (replace_etag : Option String) : Except Py.PyErr (Option String) :=\n"
        "  (match (if Option.isSome uid && check_for_duplicate_uids then uid.bind (fun u => uid_to_fname[u]?) else none) with\n"
        f"    | some ({ex}, _) => if {cmp1} then throw (Py.PyErr.raised \"DuplicateUidError\" {ex}) else pure ()\n"
        "    | none => pure ()) >>= fun _ =>\n"
        f"  if {t2.replace('(some etag)', 'etag')} then throw (Py.PyErr.raised \"InvalidETag\" name) else pure etag\n")


def translate_forget_uid(file, cls, lean, repo=REPO):
    fn = _find_method(ast.parse(open(os.path.join(repo, file), encoding="utf-8").read()), cls, "_forget_uid")
    if [a.arg for a in fn.args.args] != ["self", "name", "uid"]:
        raise Untranslatable("signature changed")
    body = [b for b in fn.body if not (isinstance(b, ast.Expr) and isinstance(b.value, ast.Constant))]
    if len(body) != 3 or ast.unparse(body[0]) != "if uid is None:\n    return":
        raise Untranslatable("shape")
    ex = _uid_lookup_try(body[1], "_uid_to_fname", "uid")
    if ex is None or ast.unparse(body[1].handlers[0].body[0]) != "return" or body[1].orelse:
        raise Untranslatable("lookup shape")
    last = body[2]
    if not (isinstance(last, ast.If) and not last.orelse and isinstance(last.test, ast.Compare) and len(last.test.ops) == 1
            and isinstance(last.test.ops[0], (ast.Eq, ast.NotEq)) and {ast.unparse(last.test.left), ast.unparse(last.test.comparators[0])} == {ex, "name"}
            and len(last.body) == 1 and ast.unparse(last.body[0]) == "del self._uid_to_fname[uid]"):
        raise Untranslatable("deletion shape")
    cmp1 = f"({ex} == name)" if isinstance(last.test.ops[0], ast.Eq) else f"({ex} != name)"
    return (
        f"/-- translated from `{file}::{cls}._forget_uid`: the map afterwards -/\n"
        f"def {lean} (uid_to_fname : Map (String × String)) (name : String) (uid : Option String) : Map (String × String) :=\n"
        "  match uid with\n  | none => uid_to_fname\n  | some uid =>\n"
        "    (match uid_to_fname[uid]? with\n"
        "     | none => uid_to_fname\n"
        f"     | some ({ex}, _) => if {cmp1} then uid_to_fname.erase uid else uid_to_fname)\n")


# ---------------------------------------------------------------------------
# webdav.traverse_resource: a work list (`collections.deque`) of (href, resource, depth)
#
# A resource is a tree (`Py.ResTree`: is it a collection, and its members); `members_fn(resource)` is the
# member list of the node.  The `while todo:` loop becomes a recursion with fuel (running out of fuel with
# work left is an error); `raise AssertionError` for an unknown depth is kept.

def translate_traverse(repo=REPO):
    src = ast.parse(open(os.path.join(repo, "xandikos/webdav.py"), encoding="utf-8").read())
    fn = next((n for n in src.body if isinstance(n, ast.AsyncFunctionDef) and n.name == "traverse_resource"), None)
    if fn is None or [a.arg for a in fn.args.args] != ["base_resource", "base_href", "depth", "members"]:
        raise Untranslatable("traverse_resource not found / signature changed")
    body = [b for b in fn.body if not (isinstance(b, ast.Expr) and isinstance(b.value, ast.Constant))]
    if len(body) != 3:
        raise Untranslatable(f"{len(body)} statements, 3 expected")
    sel, init, loop = body
    if "members_fn" not in ast.unparse(sel) or "c.members()" not in ast.unparse(sel):
        raise Untranslatable("members_fn selection")
    if ast.unparse(init) != "todo = collections.deque([(base_href, base_resource, depth)])":
        raise Untranslatable("work list initialisation")
    if not (isinstance(loop, ast.While) and ast.unparse(loop.test) == "todo" and not loop.orelse):
        raise Untranslatable("loop shape")
    lb = loop.body
    if len(lb) != 5:
        raise Untranslatable(f"loop body has {len(lb)} statements, 5 expected")
    pop, fix, yld, dep, kids = lb
    if ast.unparse(pop) not in ("(href, resource, depth) = todo.popleft()", "href, resource, depth = todo.popleft()"):
        raise Untranslatable("popleft")
    coll = "COLLECTION_RESOURCE_TYPE in resource.resource_types"
    if not (isinstance(fix, ast.If) and ast.unparse(fix.test) == coll and not fix.orelse
            and [ast.unparse(b) for b in fix.body] == ["href = ensure_trailing_slash(href)"]):
        raise Untranslatable("trailing-slash step")
    if ast.unparse(yld) != "yield (href, resource)":
        raise Untranslatable("yield")
    # depth dispatch: if depth == A: continue / elif depth == B: nextdepth = C / … / else: raise AssertionError
    branches = []
    node = dep
    while True:
        if not (isinstance(node, ast.If) and isinstance(node.test, ast.Compare) and len(node.test.ops) == 1
                and isinstance(node.test.ops[0], ast.Eq) and ast.unparse(node.test.left) == "depth"
                and isinstance(node.test.comparators[0], ast.Constant) and len(node.body) == 1):
            raise Untranslatable("depth dispatch shape")
        d = node.test.comparators[0].value
        b = node.body[0]
        if isinstance(b, ast.Continue):
            branches.append((d, None))
        elif isinstance(b, ast.Assign) and ast.unparse(b.targets[0]) == "nextdepth" and isinstance(b.value, ast.Constant):
            branches.append((d, b.value.value))
        else:
            raise Untranslatable("depth branch")
        if len(node.orelse) == 1 and isinstance(node.orelse[0], ast.If):
            node = node.orelse[0]
            continue
        if not (len(node.orelse) == 1 and isinstance(node.orelse[0], ast.Raise) and "AssertionError" in ast.unparse(node.orelse[0])):
            raise Untranslatable("depth dispatch must end in raise AssertionError")
        break
    if not (isinstance(kids, ast.If) and ast.unparse(kids.test) == coll and not kids.orelse and len(kids.body) == 1
            and isinstance(kids.body[0], ast.For) and ast.unparse(kids.body[0].target) in ("(child_name, child_resource)", "child_name, child_resource")
            and ast.unparse(kids.body[0].iter) == "members_fn(resource)"):
        raise Untranslatable("children loop")
    kb = kids.body[0].body
    if len(kb) != 2 or not isinstance(kb[0], ast.Assign) or ast.unparse(kb[0].targets[0]) != "child_href" \
            or ast.unparse(kb[1]) != "todo.append((child_href, child_resource, nextdepth))":
        raise Untranslatable("children loop body")
    # child_href expression over href, child_name, ensure_trailing_slash, +
    def href_expr(e):
        if isinstance(e, ast.Name) and e.id in ("href", "child_name"):
            return e.id
        if isinstance(e, ast.Call) and ast.unparse(e.func) == "ensure_trailing_slash" and len(e.args) == 1:
            return f"(Py.etsS {href_expr(e.args[0])})"
        if isinstance(e, ast.BinOp) and isinstance(e.op, ast.Add):
            return f"({href_expr(e.left)} ++ {href_expr(e.right)})"
        raise Untranslatable(f"child href expression {ast.unparse(e)[:50]}")
    ch = href_expr(kb[0].value)
    disp = "(throw (Py.PyErr.raised \"AssertionError\" depth))"
    for d, nxt in reversed(branches):
        if nxt is None:
            disp = f"(if depth == \"{d}\" then traverse_resource_loop fuel todo out__ else\n          {disp})"
        else:
            disp = f"(if depth == \"{d}\" then next__ \"{nxt}\" else\n          {disp})"
    return (
        "/-- `ensure_trailing_slash` (the translated function of this module) on `String` -/\n"
        "def Py.etsS (h : String) : String := String.ofList (ensure_trailing_slash h.toList)\n\n"
        "/-- the `while todo:` loop of `webdav.traverse_resource`; `out__` is what has been yielded -/\n"
        "def traverse_resource_loop : Nat → List (String × Py.ResTree × String) → List (String × Py.ResTree) →\n"
        "    Except Py.PyErr (List (String × Py.ResTree))\n"
        "  | _, [], out__ => pure out__\n"
        "  | 0, _ :: _, _ => throw (Py.PyErr.raised \"FuelExhausted\" \"\")\n"
        "  | fuel + 1, (href, resource, depth) :: todo, out__ =>\n"
        "    let href := if resource.isCollection then Py.etsS href else href\n"
        "    let out__ := out__ ++ [(href, resource)]\n"
        "    let next__ := fun (nextdepth : String) =>\n"
        "      let todo := if resource.isCollection then\n"
        f"          todo ++ resource.members.map (fun (child_name, child_resource) => ({ch}, child_resource, nextdepth))\n"
        "        else todo\n"
        "      traverse_resource_loop fuel todo out__\n"
        f"    {disp}\n\n"
        "/-- translated from `xandikos/webdav.py::traverse_resource` (with the default `members_fn`) -/\n"
        "def traverse_resource (fuel : Nat) (base_resource : Py.ResTree) (base_href depth : String) :\n"
        "    Except Py.PyErr (List (String × Py.ResTree)) :=\n"
        "  traverse_resource_loop fuel [(base_href, base_resource, depth)] []\n")


SCAN_SPECS = [
    dict(module="Unescape", file="xandikos/icalendar.py", func="_unescape_text", lean="unescape_text",
         params=[("text", "str"), ("split", "bool")], returns="strlist",
         locals={"parts": "strlist", "cur": "charbuf"}),
]


def find_func(tree, name):
    for node in ast.walk(tree):
        if isinstance(node, ast.FunctionDef) and node.name == name:
            return node
    return None


def translate_one(spec, repo=REPO):
    src = open(os.path.join(repo, spec["file"]), encoding="utf-8").read()
    tree = ast.parse(src)
    fn = find_func(tree, spec["func"])
    if fn is None:
        raise Untranslatable(f"function {spec['func']} not found in {spec['file']}")
    argnames = [a.arg for a in fn.args.args]
    want = [p[0] for p in spec["params"]]
    if argnames != want:
        raise Untranslatable(f"signature changed: {argnames} != {want}")
    cx = Ctx(spec)
    body = tr_block(fn.body, cx, 1)
    params = " ".join(f"({cx.name(n)} : {LEAN_TY[t]})" for n, t in spec.get("lean_params", spec["params"]))
    ret = LEAN_TY[spec["returns"]]
    if spec.get("raises"):
        ret = f"Except Py.PyErr {ret}"
    return f"/-- translated from `{spec['file']}::{spec['func']}` -/\ndef {spec['lean']} {params} : {ret} :=\n{body}\n"


def collation_table(repo=REPO):
    """The `collations` dict: each lambda must have the shape
    `lambda a, b, k: _match(F(a), F(b), k)` with F in {identity, .encode(..).upper()}."""
    src = open(os.path.join(repo, "xandikos/collation.py"), encoding="utf-8").read()
    tree = ast.parse(src)
    out = []
    for node in ast.walk(tree):
        tgt = None
        if isinstance(node, ast.AnnAssign) and isinstance(node.target, ast.Name):
            tgt, val = node.target.id, node.value
        elif isinstance(node, ast.Assign) and len(node.targets) == 1 and isinstance(node.targets[0], ast.Name):
            tgt, val = node.targets[0].id, node.value
        if tgt != "collations" or not isinstance(val, ast.Dict):
            continue
        for k, v in zip(val.keys, val.values):
            if not (isinstance(k, ast.Constant) and isinstance(v, ast.Lambda)):
                raise Untranslatable("collations entry shape")
            args = [a.arg for a in v.args.args]
            call = v.body
            if not (isinstance(call, ast.Call) and isinstance(call.func, ast.Name) and call.func.id == "_match"
                    and len(call.args) == 3 and len(args) == 3):
                raise Untranslatable("collation lambda shape")

            def operand(e, want):
                if isinstance(e, ast.Name) and e.id == want:
                    return "id"
                # X.encode(enc[, errors]).upper()
                if isinstance(e, ast.Call) and isinstance(e.func, ast.Attribute) and e.func.attr == "upper":
                    inner = e.func.value
                    if isinstance(inner, ast.Call) and isinstance(inner.func, ast.Attribute) \
                            and inner.func.attr == "encode" and isinstance(inner.func.value, ast.Name) \
                            and inner.func.value.id == want and inner.args and isinstance(inner.args[0], ast.Constant):
                        enc = inner.args[0].value
                        errors = inner.args[1].value if len(inner.args) > 1 else "strict"
                        return f"upper:{enc}:{errors}"
                raise Untranslatable("collation operand shape")
            fa = operand(call.args[0], args[0])
            fb = operand(call.args[1], args[1])
            if not (isinstance(call.args[2], ast.Name) and call.args[2].id == args[2]):
                raise Untranslatable("collation third argument")
            out.append((k.value, fa, fb))
    if not out:
        raise Untranslatable("collations table not found")
    return out


def emit_collations(tab):
    def f(x):
        if x == "id":
            return "Py.Enc.identity"
        _, enc, errors = x.split(":")
        if enc == "ascii" and errors == "strict":
            return "Py.Enc.asciiUpper"
        if enc == "utf-8":
            return "Py.Enc.utf8Upper"
        raise Untranslatable(f"encoding {enc}/{errors}")
    lines = ["/-- translated from the `collations` table of `xandikos/collation.py`: (name, transform of a, transform of b) -/",
             "def collations : List (List Char × Py.Enc × Py.Enc) :=", "  ["]
    rows = [f"    ({lean_str(name)}, {f(fa)}, {f(fb)})" for name, fa, fb in tab]
    lines.append(",\n".join(rows))
    lines.append("  ]")
    return "\n".join(lines) + "\n"


HEADER = """/-
  GENERATED by harness/translate.py from the working tree of /repo — do not edit.
  Regenerated on every check run; the tie modules prove these equal to the hand-written model.
-/
import Xandikos.Py.Prelude
import Xandikos.Py.Path
import Xandikos.Py.Dict

namespace Xandikos.Generated
open Xandikos

"""


def generate(repo=REPO, out_dir=GEN_DIR):
    """Returns {module: (text or None, error or None)} and writes the files that translate."""
    from common import write_if_changed
    mods = {}
    for spec in SPECS:
        mods.setdefault(spec["module"], [])
        try:
            mods[spec["module"]].append((spec, translate_one(spec, repo), None))
        except (Untranslatable, SyntaxError, KeyError, IndexError, AttributeError) as e:
            mods[spec["module"]].append((spec, None, f"{type(e).__name__}: {e}"))
    for spec in SCAN_SPECS:
        mods.setdefault(spec["module"], [])
        try:
            mods[spec["module"]].append((spec, translate_scan(spec, repo), None))
        except (Untranslatable, SyntaxError, KeyError, IndexError, AttributeError) as e:
            mods[spec["module"]].append((spec, None, f"{type(e).__name__}: {e}"))
    try:
        mods["Wellknown"] = [({"func": "WellknownRedirector.__call__"}, translate_wellknown(repo), None)]
    except (Untranslatable, SyntaxError, KeyError, IndexError, AttributeError, StopIteration) as e:
        mods["Wellknown"] = [({"func": "WellknownRedirector.__call__"}, None, f"{type(e).__name__}: {e}")]
    try:
        mods["IterChanges"] = [({"func": "GitStore.iter_changes"}, translate_iter_changes(repo), None)]
    except (Untranslatable, SyntaxError, KeyError, IndexError, AttributeError, StopIteration) as e:
        mods["IterChanges"] = [({"func": "GitStore.iter_changes"}, None, f"{type(e).__name__}: {e}")]
    try:
        mods.setdefault("Href", []).append(({"func": "traverse_resource"}, translate_traverse(repo), None))
    except (Untranslatable, SyntaxError, KeyError, IndexError, AttributeError, StopIteration) as e:
        mods.setdefault("Href", []).append(({"func": "traverse_resource"}, None, f"{type(e).__name__}: {e}"))
    try:
        mods["Multiget"] = [({"func": "_get_resources_by_hrefs"}, translate_resources_by_hrefs(repo), None)]
    except (Untranslatable, SyntaxError, KeyError, IndexError, AttributeError, StopIteration) as e:
        mods["Multiget"] = [({"func": "_get_resources_by_hrefs"}, None, f"{type(e).__name__}: {e}")]
    try:
        mods["ExcTables"] = [({"func": "exception tables"}, translate_exception_tables(repo), None)]
    except (Untranslatable, SyntaxError, KeyError, IndexError, AttributeError, StopIteration) as e:
        mods["ExcTables"] = [({"func": "exception tables"}, None, f"{type(e).__name__}: {e}")]
    try:
        mods["FindKeys"] = [({"func": "AutoIndexManager.find_present_keys"}, translate_find_present_keys(repo), None)]
    except (Untranslatable, SyntaxError, KeyError, IndexError, AttributeError, StopIteration) as e:
        mods["FindKeys"] = [({"func": "AutoIndexManager.find_present_keys"}, None, f"{type(e).__name__}: {e}")]
    mods["StoreGate"] = []
    for (f_, c_, l_, fn_) in (("xandikos/store/git.py", "GitStore", "git_check_duplicate", translate_check_duplicate),
                              ("xandikos/store/vdir.py", "VdirStore", "vdir_check_duplicate", translate_check_duplicate),
                              ("xandikos/store/git.py", "GitStore", "git_forget_uid", translate_forget_uid),
                              ("xandikos/store/vdir.py", "VdirStore", "vdir_forget_uid", translate_forget_uid)):
        try:
            mods["StoreGate"].append(({"func": l_}, fn_(f_, c_, l_, repo), None))
        except (Untranslatable, SyntaxError, KeyError, IndexError, AttributeError, StopIteration) as e:
            mods["StoreGate"].append(({"func": l_}, None, f"{type(e).__name__}: {e}"))
    mods["Gates"] = []
    for g in GATES:
        try:
            mods["Gates"].append(({"func": g["lean"]}, translate_gate(g, repo), None))
        except (Untranslatable, SyntaxError, KeyError, IndexError, AttributeError, StopIteration) as e:
            mods["Gates"].append(({"func": g["lean"]}, None, f"{type(e).__name__}: {e}"))
    result = {}
    for mod, items in mods.items():
        errs = [f"{s['func']}: {err}" for s, t, err in items if err]
        hdr = HEADER
        if mod == "Gates":
            hdr = HEADER.replace("import Xandikos.Py.Dict\n", "import Xandikos.Py.Dict\nimport Xandikos.Generated.Etag\n")
        if mod == "StoreGate":
            hdr = HEADER.replace("import Xandikos.Py.Dict\n", "import Xandikos.Py.Dict\nimport Xandikos.Base\n")
        if mod == "FindKeys":
            hdr = HEADER.replace("import Xandikos.Py.Dict\n", "import Xandikos.Py.Dict\nimport Xandikos.Base\n")
        if mod == "Multiget":
            hdr = HEADER.replace("import Xandikos.Py.Dict\n", "import Xandikos.Py.Dict\nimport Xandikos.Generated.Href\n")
        text = hdr + "\n".join(t for s, t, err in items if t)
        if mod == "Collation":
            try:
                text += "\n" + emit_collations(collation_table(repo))
            except Untranslatable as e:
                errs.append(f"collations: {e}")
        text += "\nend Xandikos.Generated\n"
        if errs:
            result[mod] = (None, "; ".join(errs))
            # keep the last good file in place: the tie is then by correspondence only
        else:
            write_if_changed(os.path.join(out_dir, mod + ".lean"), text)
            result[mod] = (text, None)
    return result


if __name__ == "__main__":
    sys.path.insert(0, HERE)
    res = generate()
    for mod, (text, err) in res.items():
        print(mod, "OK" if text else "UNTRANSLATABLE: " + err)
    if "--print" in sys.argv:
        for mod, (text, err) in res.items():
            if text:
                print(text)
