"""Compatibility shims for the sandbox's newer third-party libraries.

See DESIGN.md section 1.3.  Installed only if the attribute is missing, so on
an environment where xandikos' expectations hold this module does nothing.
Every harness entry point imports this module before touching xandikos.
"""
import os
import sys

REPO = os.environ.get("XANDIKOS_REPO", "/repo")
if REPO not in sys.path:
    sys.path.insert(0, REPO)

import logging

logging.disable(logging.CRITICAL)

import dulwich.repo  # noqa: E402

APPLIED = []

if not hasattr(dulwich.repo.Repo, "do_commit"):

    def _do_commit(self, message=None, **kwargs):
        return self.get_worktree().commit(message=message, **kwargs)

    dulwich.repo.Repo.do_commit = _do_commit
    APPLIED.append("dulwich.repo.Repo.do_commit -> get_worktree().commit")

import icalendar  # noqa: E402
import xandikos.icalendar as _xi  # noqa: E402
import xandikos.caldav as _xc  # noqa: E402

for _m in (_xi, _xc):
    cf = getattr(_m, "component_factory", None)
    try:
        cf["VEVENT"]
    except Exception:
        _m.component_factory = icalendar.ComponentFactory()
        APPLIED.append(_m.__name__ + ".component_factory -> icalendar.ComponentFactory()")
