"""Shared check framework: verdict protocol, evidence, known findings, Lean build/audit.

See DESIGN.md section 3.  Exit codes: 0 = property held on everything explored,
1 = VIOLATION line printed, 2 = infrastructure failure (never a VIOLATION).
"""
import fcntl
import hashlib
import json
import os
import random
import re
import shutil
import subprocess
import sys
import tempfile
import time
import time

VERIF = os.path.dirname(os.path.dirname(os.path.abspath(__file__)))
LEAN_DIR = os.path.join(VERIF, "lean")
REPO = os.environ.get("XANDIKOS_REPO", "/repo")
DRIVER = os.path.join(LEAN_DIR, ".lake", "build", "bin", "xdriver")
ALLOWED_AXIOMS = {"propext", "Classical.choice", "Quot.sound"}
FORBIDDEN = re.compile(
    r"\bsorry\b|\badmit\b|^axiom |native_decide|bv_decide|implemented_by|\bunsafe |maxHeartbeats 0"
)

BASE_TRUSTED = [
    "Lean 4.33.0 kernel; axioms allowed: propext, Classical.choice, Quot.sound (audited with #print axioms every run)",
    "statement of the theorems in lean/Xandikos/Theorems and of the spec in lean/Xandikos/*/Spec.lean",
    "harness/compat.py shims for dulwich>=1.0 (Repo.do_commit) and icalendar>=7 (component_factory)",
    "CPython, dulwich, icalendar, vobject, aiohttp, configparser, urllib, posixpath are parameters of the model, not verified",
]


class Infra(Exception):
    """Infrastructure failure (exit 2)."""


def scratch_dir(prefix="xv-"):
    """a fresh directory this process may write to (see guard.py)"""
    import guard
    base = os.environ.get("TMPDIR", "/tmp")
    with guard.bypass():
        d = tempfile.mkdtemp(prefix=prefix, dir=base)
    guard.allow(d)
    return d


class _Lock:
    def __init__(self, path):
        self.path = path

    def __enter__(self):
        self.f = open(self.path, "w")
        fcntl.flock(self.f, fcntl.LOCK_EX)
        return self

    def __exit__(self, *a):
        fcntl.flock(self.f, fcntl.LOCK_UN)
        self.f.close()


def lake_lock():
    return _Lock(os.path.join(LEAN_DIR, ".lake-verif.lock"))


def run(cmd, cwd=None, timeout=1800, input=None):
    p = subprocess.run(
        cmd, cwd=cwd, capture_output=True, text=True, timeout=timeout, input=input
    )
    return p.returncode, p.stdout, p.stderr


def lake_build(targets, timeout=1800):
    """Build the given lake targets.  Returns (ok, output)."""
    with lake_lock():
        rc, out, err = run(["lake", "build"] + list(targets), cwd=LEAN_DIR, timeout=timeout)
    return rc == 0, out + err


def ensure_driver():
    ok, out = lake_build(["xdriver", "xjdriver"])
    if not ok or not os.path.exists(DRIVER):
        raise Infra("cannot build the model driver:\n" + out[-3000:])


def run_driver(mode, lines, timeout=600):
    """Feed op lines to the native Lean driver, return output lines."""
    data = "\n".join(lines) + "\n"
    for _ in range(120):            # the binary is replaced while a concurrent `lake build` relinks it
        if os.path.exists(DRIVER):
            break
        time.sleep(0.5)
    p = subprocess.run([DRIVER, mode], input=data, capture_output=True, text=True, timeout=timeout)
    if p.returncode != 0:
        raise Infra("driver failed: " + p.stderr[-2000:])
    out = p.stdout.split("\n")
    if out and out[-1] == "":
        out.pop()
    if len(out) != len(lines):
        raise Infra(f"driver returned {len(out)} lines for {len(lines)} inputs")
    return out


def grep_forbidden():
    """Scan the Lean sources for sorry/axiom/native_decide etc. outside comments."""
    hits = []
    for root, _dirs, files in os.walk(LEAN_DIR):
        if ".lake" in root:
            continue
        for fn in files:
            if not fn.endswith(".lean"):
                continue
            path = os.path.join(root, fn)
            in_block = 0
            for i, line in enumerate(open(path, encoding="utf-8"), 1):
                code = line
                # crude comment stripping: block comments and line comments
                out = ""
                j = 0
                while j < len(code):
                    if code.startswith("/-", j):
                        in_block += 1
                        j += 2
                    elif code.startswith("-/", j) and in_block:
                        in_block -= 1
                        j += 2
                    elif in_block:
                        j += 1
                    elif code.startswith("--", j):
                        break
                    else:
                        out += code[j]
                        j += 1
                if FORBIDDEN.search(out):
                    hits.append(f"{os.path.relpath(path, LEAN_DIR)}:{i}: {line.strip()}")
    return hits


def audit_axioms(audit_file):
    """Run `lake env lean Audit/<file>` and parse `#print axioms` output.

    Returns dict theorem -> list of axioms."""
    with lake_lock():
        rc, out, err = run(["lake", "env", "lean", audit_file], cwd=LEAN_DIR, timeout=900)
    if rc != 0:
        return None, out + err
    res = {}
    # outputs look like: 'Foo.bar' depends on axioms: [propext, Quot.sound]
    #                or: 'Foo.bar' does not depend on any axioms
    text = out.replace("\n ", " ")
    for m in re.finditer(r"'([^']+)' depends on axioms: \[([^\]]*)\]", text, re.S):
        res[m.group(1)] = [a.strip() for a in m.group(2).replace("\n", " ").split(",") if a.strip()]
    for m in re.finditer(r"'([^']+)' does not depend on any axioms", text):
        res[m.group(1)] = []
    return res, out + err


def write_if_changed(path, content):
    try:
        if open(path, encoding="utf-8").read() == content:
            return False
    except FileNotFoundError:
        pass
    os.makedirs(os.path.dirname(path), exist_ok=True)
    with open(path, "w", encoding="utf-8") as f:
        f.write(content)
    return True


def load_known_findings():
    p = os.path.join(VERIF, "known_findings.json")
    try:
        return json.load(open(p))
    except FileNotFoundError:
        return {"findings": [], "fixed": []}


class Check:
    """One run of one property's check."""

    def __init__(self, pid, tier=None, seed=None):
        import guard
        guard.install()         # the code under test cannot write outside the check's scratch directories
        self.pid = pid
        self.tier = tier or os.environ.get("VERIF_TIER", "quick")
        if self.tier not in ("quick", "thorough"):
            self.tier = "quick"
        self.seed = int(seed if seed is not None else os.environ.get("VERIF_SEED", "0") or 0)
        self.rng = random.Random(f"{pid}-{self.seed}")
        import glob
        for old in glob.glob(os.path.join(VERIF, "replays", f"{pid}-{self.seed}-*.json")):
            try:
                os.remove(old)
            except OSError:
                pass
        self.t0 = time.time()
        self.violations = []  # dicts: signature, what, replay
        self.broken = []  # dicts: obligation, detail, case
        self.obligations = []  # names
        self.discharged = []
        self.evaluations = 0
        self.nontrivial = set()
        self.samples = []
        self.traces_validated = 0
        self.dist = {}
        self.assumptions = []
        self.trusted = list(BASE_TRUSTED)
        self.notes = []
        self.rule = ""
        self.checker_cmd = ""
        self.extra = {}

    # -- bookkeeping -------------------------------------------------------
    def count(self, key, n=1):
        self.dist[key] = self.dist.get(key, 0) + n

    def case(self, key, nontrivial=True):
        self.evaluations += 1
        if nontrivial:
            self.nontrivial.add(key if isinstance(key, (str, int, tuple)) else json.dumps(key, sort_keys=True))

    def sample(self, s, limit=6):
        if len(self.samples) < limit:
            self.samples.append(s)

    def violation(self, signature, what, replay):
        self.violations.append({"signature": signature, "what": what, "replay": replay})

    def broke(self, obligation, detail, case=None):
        self.broken.append({"obligation": obligation, "detail": detail[-4000:], "case": case})

    # -- Lean obligations --------------------------------------------------
    def lean_obligations(self, module, audit_file, regen=None):
        """Build the theorem module (after regenerating translated sources) and audit axioms.

        Every theorem named in the audit file is one obligation."""
        if regen:
            regen(self)
        names = []
        apath = os.path.join(LEAN_DIR, audit_file)
        for line in open(apath, encoding="utf-8"):
            m = re.match(r"#print axioms\s+(\S+)", line.strip())
            if m:
                names.append(m.group(1))
        self.obligations.extend(names)
        self.checker_cmd = f"cd lean && lake build {module} && lake env lean {audit_file}"
        ok, out = lake_build([module])
        if not ok:
            if "error" not in out:
                raise Infra("lake build failed without a Lean error:\n" + out[-3000:])
            bad = sorted(set(re.findall(r"error: (Xandikos/[\w/]+\.lean):\d+", out)))
            self.broke("lake build " + module, "files with errors: " + ", ".join(bad) + "\n" + out)
            return False
        hits = grep_forbidden()
        if hits:
            self.broke("no sorry/axiom/native_decide in sources", "\n".join(hits))
            return False
        res, out = audit_axioms(audit_file)
        if res is None:
            self.broke("axiom audit " + audit_file, out)
            return False
        allok = True
        for n in names:
            ax = res.get(n)
            if ax is None:
                self.broke("theorem " + n, "not found by #print axioms\n" + out[-1500:])
                allok = False
            elif set(ax) - ALLOWED_AXIOMS:
                self.broke("theorem " + n, "depends on axioms " + ", ".join(ax))
                allok = False
            else:
                self.discharged.append(n)
        self.extra["axioms"] = {n: res.get(n) for n in names}
        if self.tier == "thorough" and allok and os.environ.get("VERIF_LEANCHECKER", "1") == "1":
            with lake_lock():
                rc, o, e = run(["lake", "env", "leanchecker", module], cwd=LEAN_DIR, timeout=1800)
            self.extra["leanchecker"] = "ok" if rc == 0 else "failed"
            if rc != 0:
                self.broke("leanchecker " + module, (o + e)[-2000:])
                allok = False
        return allok

    # -- verdict -----------------------------------------------------------
    def finish(self):
        kf = load_known_findings()
        known = [f for f in kf.get("findings", []) if f.get("property") == self.pid]
        os.makedirs(os.path.join(VERIF, "replays"), exist_ok=True)
        new_viol = []
        known_hit = {}
        for v in self.violations:
            hit = None
            for f in known:
                if re.fullmatch(f["signature"], v["signature"]):
                    hit = f
                    break
            if hit:
                known_hit.setdefault(hit["id"], (hit, v))
            else:
                new_viol.append(v)
        lines = []
        for fid, (f, v) in sorted(known_hit.items()):
            lines.append(f"KNOWN-FINDING: property={self.pid} {f['id']} {f['what']}")
        exit_code = 0
        if self.broken:
            json.dump({"property": self.pid, "seed": self.seed, "tier": self.tier, "broken": self.broken},
                      open(os.path.join(VERIF, "replays", f"{self.pid}-{self.seed}-obligations.json"), "w"),
                      indent=1, default=str)
        if new_viol:
            # report the first few distinct signatures
            seen = set()
            for v in new_viol:
                if v["signature"] in seen:
                    continue
                seen.add(v["signature"])
                path = os.path.join(
                    VERIF, "replays", f"{self.pid}-{self.seed}-{len(seen)}.json"
                )
                json.dump(
                    {"property": self.pid, "seed": self.seed, "tier": self.tier,
                     "signature": v["signature"], "what": v["what"], "replay": v["replay"],
                     "broken_obligations": sorted({b["obligation"] for b in self.broken})},
                    open(path, "w"), indent=1, default=str)
                lines.append(f"VIOLATION property={self.pid} replay={path}")
                if len(seen) >= 5:
                    break
            exit_code = 1
        elif self.broken:
            path = os.path.join(VERIF, "replays", f"{self.pid}-{self.seed}-broken.json")
            json.dump(
                {"property": self.pid, "seed": self.seed, "tier": self.tier,
                 "no_failing_input_found": True,
                 "broken": self.broken}, open(path, "w"), indent=1, default=str)
            lines.append(
                f"VIOLATION property={self.pid} replay={path} no-failing-input-found")
            exit_code = 1
        self.write_evidence(len(new_viol), [k for k in known_hit])
        for ln in lines:
            print(ln)
        for ob in sorted({b['obligation'] for b in self.broken}):
            print(f"# broken obligation: {ob}", file=sys.stderr)
        sys.stdout.flush()
        return exit_code

    def write_evidence(self, nviol, known_ids):
        try:
            import guard
            self.extra["writes_refused_by_the_guard"] = len(guard.BLOCKED) + self.extra.get("writes_refused_by_the_guard", 0)
        except Exception:
            pass
        cov = {
            "obligations": len(self.obligations),
            "discharged": len(self.discharged),
            "checker_cmd": self.checker_cmd or "cd lean && lake build",
            "trusted_base": self.trusted,
            "evaluations": self.evaluations,
            "distinct_nontrivial": len(self.nontrivial),
            "rule": self.rule,
            "samples": self.samples or ["(no case run)"],
            "traces_validated_against_impl": self.traces_validated,
            "distribution": self.dist,
            "theorems": self.obligations,
            "broken_obligations": [b["obligation"] for b in self.broken],
            "known_findings_hit": known_ids,
        }
        cov.update(self.extra)
        ev = {
            "property_id": self.pid,
            "tier": self.tier,
            "seed": self.seed,
            "level": "proof",
            "coverage": cov,
            "assumptions": self.assumptions,
            "wall_s": round(time.time() - self.t0, 2),
            "violations": nviol,
            "notes": self.notes,
        }
        os.makedirs(os.path.join(VERIF, "evidence"), exist_ok=True)
        with open(os.path.join(VERIF, "evidence", f"{self.pid}.json"), "w") as f:
            json.dump(ev, f, indent=1, default=str)


def main_wrapper(fn):
    """Run a check function, mapping infrastructure failures to exit 2."""
    try:
        rc = fn()
    except Infra as e:
        print("INFRA: " + str(e), file=sys.stderr)
        sys.exit(2)
    except subprocess.TimeoutExpired as e:
        print("INFRA: timeout " + str(e), file=sys.stderr)
        sys.exit(2)
    except Exception:  # a bug in the harness is an infrastructure failure, never a violation
        import traceback
        traceback.print_exc()
        print("INFRA: harness exception", file=sys.stderr)
        sys.stderr.flush()
        os._exit(2)
    sys.stdout.flush()
    sys.stderr.flush()
    try:
        import guard
        guard.cleanup()
    except Exception:
        pass
    os._exit(rc)  # skip library destructors that complain at interpreter shutdown
