"""Evaluate a seeded mutation: confirm it (tests still pass, demo fails with / passes without the
patch, in a scratch worktree) and run the registered checks against /repo with the patch applied.

usage: seeded.py confirm <mutdir> <worktree>
       seeded.py detect  <mutdir> <check-id>[,<check-id>...] [--tier quick|thorough]
Never leaves the patch applied to /repo.
"""
import json
import os
import subprocess
import sys
import xml.etree.ElementTree as ET

VERIF = os.path.dirname(os.path.dirname(os.path.abspath(__file__)))
REPO = "/repo"


def sh(cmd, cwd=None, timeout=3600):
    p = subprocess.run(cmd, cwd=cwd, shell=isinstance(cmd, str), capture_output=True, text=True, timeout=timeout)
    return p.returncode, p.stdout + p.stderr


def passing_tests(cwd):
    out = os.path.join(cwd, ".junit-seeded.xml")
    sh(f"/venv/bin/python -m pytest -q -p no:cacheprovider --timeout=900 --continue-on-collection-errors "
       f"--junitxml={out} xandikos", cwd=cwd)
    ok = set()
    for tc in ET.parse(out).getroot().iter("testcase"):
        if not any(c.tag in ("failure", "error", "skipped") for c in tc):
            ok.add(tc.get("classname") + "::" + tc.get("name"))
    os.remove(out)
    return ok


def confirm(mutdir, wt):
    patch = os.path.join(mutdir, "patch.diff")
    demo = os.path.join(mutdir, "demo.py")
    base = set(json.load(open("/root/.vp/BASELINE.json"))["stable_pass"])
    rc, out = sh(["git", "-C", wt, "status", "--short"])
    assert out.strip() == "", "worktree not clean: " + out
    rc0, out0 = sh(["/venv/bin/python", demo], cwd=wt)
    rc, out = sh(["git", "-C", wt, "apply", patch])
    assert rc == 0, "patch does not apply: " + out
    try:
        rc1, out1 = sh(["/venv/bin/python", demo], cwd=wt)
        ok = passing_tests(wt)
    finally:
        sh(["git", "-C", wt, "checkout", "--", "."])
    missing = sorted(base - ok)
    res = {"demo_without_patch": rc0, "demo_with_patch": rc1, "baseline_tests_missing_with_patch": missing,
           "confirmed": rc0 == 0 and rc1 != 0 and not missing, "demo_output_with_patch": out1[-600:]}
    print(json.dumps(res, indent=1))
    return res


def detect(mutdir, checks, tier="quick"):
    patch = os.path.join(mutdir, "patch.diff")
    rc, out = sh(["git", "-C", REPO, "status", "--short"])
    assert out.strip() == "", "/repo not clean: " + out
    rc, out = sh(["git", "-C", REPO, "apply", patch])
    assert rc == 0, "patch does not apply to /repo: " + out
    res = {}
    try:
        for c in checks:
            rc, out = sh([os.path.join(VERIF, "check"), c, "--tier", tier], cwd=VERIF, timeout=7200)
            lines = [l for l in out.splitlines() if l.startswith(("VIOLATION", "KNOWN-FINDING", "# broken", "INFRA"))]
            res[c] = {"exit": rc, "lines": lines[:8]}
    finally:
        sh(["git", "-C", REPO, "checkout", "--", "."])
    print(json.dumps(res, indent=1))
    return res


if __name__ == "__main__":
    if sys.argv[1] == "confirm":
        confirm(sys.argv[2], sys.argv[3])
    else:
        tier = "quick"
        if "--tier" in sys.argv:
            tier = sys.argv[sys.argv.index("--tier") + 1]
        detect(sys.argv[2], sys.argv[3].split(","), tier)
