"""Body generators and the library-side oracle for body attributes.

The oracle never goes through xandikos: it calls icalendar / vobject directly
(DESIGN.md section 2.3), so a change to xandikos' validate()/get_uid()/normalized()
shows up as a disagreement with the model.
"""
import hashlib
import urllib.parse

import compat  # noqa: F401
import icalendar
from icalendar import Calendar
from icalendar.prop import vText

CONTROL = ["\x0c", "\x01"]


def enc(s):
    if s is None:
        return "~"
    return "=" + urllib.parse.quote(s, safe="")


def enc_pairs(pairs):
    return "=" + ",".join(
        urllib.parse.quote(a, safe="") + ":" + urllib.parse.quote(b, safe="") for a, b in pairs
    )


def git_blob_id(data: bytes) -> str:
    return hashlib.sha1(b"blob %d\0" % len(data) + data).hexdigest()


def git_tree_id(entries) -> str:
    """entries: iterable of (name:str, blob sha hex) -- all regular files 100644."""
    body = b""
    for name, sha in sorted((n.encode("utf-8"), s) for n, s in entries):
        body += b"100644 " + name + b"\0" + bytes.fromhex(sha)
    return hashlib.sha1(b"tree %d\0" % len(body) + body).hexdigest()


def md5_id(data: bytes) -> str:
    return hashlib.md5(data).hexdigest()


class Tokens:
    """Bijection bytes <-> symbolic token, plus hash tables for etag canonicalisation."""

    def __init__(self):
        self.by_bytes = {}
        self.data = {}
        self.by_sha = {}
        self.by_md5 = {}

    def tok(self, data: bytes) -> str:
        t = self.by_bytes.get(data)
        if t is None:
            t = "b%d" % len(self.by_bytes)
            self.by_bytes[data] = t
            self.data[t] = data
            self.by_sha[git_blob_id(data)] = t
            self.by_md5[md5_id(data)] = t
        return t

    def of_etag(self, etag: str, kind: str) -> str:
        """Map a concrete etag to the token whose bytes hash to it (or '?<etag>')."""
        if etag is None:
            return None
        tab = self.by_md5 if kind == "vdir" else self.by_sha
        return tab.get(etag, "?" + etag)

    def etag_of(self, tok: str, kind: str) -> str:
        d = self.data[tok]
        return md5_id(d) if kind == "vdir" else git_blob_id(d)


def _has_control(comp) -> bool:
    for _name, value in comp.items():
        if isinstance(value, vText):
            for c in CONTROL:
                if c in value:
                    return True
    for sub in comp.subcomponents:
        if _has_control(sub):
            return True
    return False


def ical_attrs(data: bytes):
    """(valid, parses, uid, normalised bytes) for a body opened as ICalendarFile."""
    try:
        cal = Calendar.from_ical(data)
    except ValueError:
        return (False, False, None, data)
    errors = getattr(cal, "errors", None)
    valid = not errors and not _has_control(cal)
    uid = None
    for comp in cal.subcomponents:
        if "UID" in comp:
            uid = str(comp["UID"])
            break
    try:
        norm = cal.to_ical()
    except Exception:
        norm = data
    return (valid, True, uid, norm)


def vcard_attrs(data: bytes):
    import vobject

    c = data.strip()
    ok = (c.startswith(b"BEGIN:VCARD\r\n") or c.startswith(b"BEGIN:VCARD\n")) and c.endswith(
        b"\nEND:VCARD"
    )
    if ok:
        try:
            card = vobject.readOne(data.decode("utf-8", "surrogateescape"))
            ok = bool(card.validate())
        except Exception:
            ok = False
    return (ok, True, None, data)


def plain_attrs(data: bytes):
    return (True, True, None, data)


ATTRS = {"ical": ical_attrs, "vcard": vcard_attrs, "plain": plain_attrs}


class AttrTable:
    """Emits `attr` lines for (handler, token) pairs the first time they are needed."""

    def __init__(self, toks: Tokens):
        self.toks = toks
        self.done = set()
        self.rows = {}

    def ensure(self, hk: str, tok: str, out_lines: list):
        if (hk, tok) in self.done:
            return self.rows[(hk, tok)]
        self.done.add((hk, tok))
        valid, parses, uid, norm = ATTRS[hk](self.toks.data[tok])
        ntok = self.toks.tok(norm)
        self.rows[(hk, tok)] = (valid, parses, uid, ntok)
        out_lines.append(
            "attr %s %s %d %d %s %s" % (hk, enc(tok), int(valid), int(parses), enc(uid), enc(ntok))
        )
        return self.rows[(hk, tok)]

    def ensure_all(self, tok: str, out_lines: list):
        for hk in ("ical", "vcard", "plain"):
            self.ensure(hk, tok, out_lines)
        # the normal forms can be stored and read back: they need attributes too
        for hk in ("ical", "vcard", "plain"):
            n = self.rows[(hk, tok)][3]
            for hk2 in ("ical", "vcard", "plain"):
                self.ensure(hk2, n, out_lines)


def hk_of_ctype(ct):
    base = ct.split(";")[0]
    return {"text/calendar": "ical", "text/vcard": "vcard"}.get(base, "plain")


def hk_of_name(name):
    l = name.lower()
    if l.endswith(".ics"):
        return "ical"
    if l.endswith(".vcf"):
        return "vcard"
    return "plain"


# ---------------------------------------------------------------------------
# generators

def vevent(uid, summary="event", dtstart="20240105T100000Z", extra="", prodid="-//x//y//EN",
           comp="VEVENT", eol="\r\n", uidline=True):
    lines = ["BEGIN:VCALENDAR", "VERSION:2.0", "PRODID:" + prodid, "BEGIN:" + comp]
    if uidline and uid is not None:
        lines.append("UID:" + uid)
    if dtstart:
        lines.append("DTSTART:" + dtstart)
    lines.append("SUMMARY:" + summary)
    if extra:
        lines.extend(extra.split("\n"))
    lines += ["END:" + comp, "END:VCALENDAR"]
    return (eol.join(lines) + eol).encode("utf-8")


def vcard(fn, uid=None, extra=""):
    lines = ["BEGIN:VCARD", "VERSION:3.0", "FN:" + fn, "N:" + fn + ";;;;"]
    if uid:
        lines.append("UID:" + uid)
    if extra:
        lines.extend(extra.split("\n"))
    lines.append("END:VCARD")
    return ("\r\n".join(lines) + "\r\n").encode("utf-8")


UIDS = ["u1", "u2", "U1", "u 3", "u\\,4", "u;5@example.com", "üid-6"]
SUMMARIES = ["hello", "Meeting with Bob", "café", "a\\, b", "x" * 90, "party \U0001F389 \U00020BB7"]

INVALID_ICAL = [
    b"",
    b"hello world",
    b"BEGIN:VCALENDAR\r\nVERSION:2.0\r\nBEGIN:VEVENT\r\nUID:t1\r\nSUMMARY:x\r\n",
    b"BEGIN:VCALENDAR\r\nVERSION:2.0\r\nPRODID:x\r\nBEGIN:VEVENT\r\nUID:c1\r\nSUMMARY:a\x01b\r\nEND:VEVENT\r\nEND:VCALENDAR\r\n",
    b"BEGIN:VCALENDAR\r\nVERSION:2.0\r\nPRODID:x\r\nBEGIN:VEVENT\r\nUID:c2\r\nDESCRIPTION:a\x0cb\r\nEND:VEVENT\r\nEND:VCALENDAR\r\n",
    b"BEGIN:VCALENDAR\r\nBEGIN:VEVENT\r\nEND:VCALENDAR\r\n",
    # forbidden control characters below the first level of components
    b"BEGIN:VCALENDAR\r\nVERSION:2.0\r\nPRODID:x\r\nBEGIN:VEVENT\r\nUID:c3\r\nSUMMARY:ok\r\nBEGIN:VALARM\r\nACTION:DISPLAY\r\nTRIGGER:-PT5M\r\nDESCRIPTION:a\x0cb\r\nEND:VALARM\r\nEND:VEVENT\r\nEND:VCALENDAR\r\n",
    b"BEGIN:VCALENDAR\r\nVERSION:2.0\r\nPRODID:x\r\nBEGIN:VTIMEZONE\r\nTZID:X/Y\r\nBEGIN:STANDARD\r\nDTSTART:19701025T030000\r\nTZOFFSETFROM:+0200\r\nTZOFFSETTO:+0100\r\nTZNAME:C\x01T\r\nEND:STANDARD\r\nEND:VTIMEZONE\r\nBEGIN:VEVENT\r\nUID:c4\r\nSUMMARY:ok\r\nEND:VEVENT\r\nEND:VCALENDAR\r\n",
    b"BEGIN:VCALENDAR\r\nVERSION:2.0\r\nPRODID:x\r\nBEGIN:VTODO\r\nUID:c5\r\nSUMMARY:fine\r\nEND:VTODO\r\nBEGIN:VEVENT\r\nUID:c5\r\nLOCATION:a\x01b\r\nEND:VEVENT\r\nEND:VCALENDAR\r\n",
    b"\x00\xff\xfe garbage",
]
INVALID_VCARD = [
    b"",
    b"hello",
    b"FN:nobody\r\n",
    b"BEGIN:VCARD\r\nVERSION:3.0\r\nFN:x\r\n",
    b"VERSION:3.0\r\nFN:x\r\nEND:VCARD\r\n",
]


def gen_ical(rng, uid=None):
    if uid is None:
        uid = rng.choice(UIDS)
    comp = rng.choice(["VEVENT", "VEVENT", "VTODO", "VJOURNAL"])
    summary = rng.choice(SUMMARIES) + rng.choice(["", " 2", " 3"])
    extra = rng.choice(["", "", "DESCRIPTION:line one\\nline two", "CATEGORIES:A,B", "DESCRIPTION:room\tB12 (a tab)",
                        "BEGIN:VALARM\nACTION:DISPLAY\nTRIGGER:-PT15M\nDESCRIPTION:r\nEND:VALARM"
                        if comp == "VEVENT" else "", "LOCATION;LANGUAGE=en:Room \"1\"",
                        # repeated properties, not in lexical order: they are stored in the order given
                        "ATTENDEE:mailto:zed@example.com\nATTENDEE:mailto:amy@example.com",
                        "COMMENT:zz top\nCOMMENT:aa bottom\nCOMMENT:mm"])
    eol = rng.choice(["\r\n", "\r\n", "\n"])
    uidline = rng.random() > 0.08
    return vevent(uid, summary=summary, extra=extra, comp=comp, eol=eol, uidline=uidline)


def gen_vcard(rng):
    fn = rng.choice(["Alice", "Bob B", "Zoë", "张三", "O'Neil; Jr", "Zoe \U0001F600 Smiley"])
    return vcard(fn, uid=rng.choice([None, "c1", "c2"]), extra=rng.choice(["", "TEL;TYPE=home:+1 555", "EMAIL:a@b.c"]))
