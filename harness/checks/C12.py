"""C12 — addressbook-query returns exactly the contacts that match the filter."""
import itertools
import json
import shutil
import urllib.parse

import compat  # noqa: F401
from bodies import enc
from common import run_driver, scratch_dir
from httpdrv import make_server, parse_multistatus
import translate
import transval

AUDIT = "Audit/C12.lean"
MODULE = "Xandikos.Theorems.C12"
BOOK = "/user/contacts/addressbook"
NS = "urn:ietf:params:xml:ns:carddav"
q = lambda s: urllib.parse.quote(s, safe="")

FNS = ["Alice Example", "bob", "BOB", "Zoë Faßbinder", "张三", "Émile 😀", "alice", "Alice",
       "Zoe\u0308 Mu\u0308ller",                      # decomposed (NFD), as macOS/iOS write names
       "Ann Lee", "Annabel Leeds", "Joann Aleem"]    # near-collisions that differ by a blank
EMAILS = ["alice@example.com", "BOB@EXAMPLE.COM", "zoe@ex.org", "z@b.c"]
TELS = [("+1 555 0100", {"TYPE": ["home", "voice"]}), ("+49 30 12345", {"TYPE": ["work"]}),
        ("0800", {})]
NOTES = ["likes café", "plain note", "UPPER note", ""]


def gen_card(rng, i):
    """-> (bytes, structure) with structure = list of (name lower, value, params)."""
    fn = rng.choice(FNS)
    lines = ["BEGIN:VCARD", "VERSION:3.0", "FN:" + fn, "N:" + fn + ";;;;"]
    struct = [("fn", fn, {})]
    for e in rng.sample(EMAILS, rng.randint(0, 2)):
        lines.append("EMAIL:" + e)
        struct.append(("email", e, {}))
    for (t, params) in rng.sample(TELS, rng.randint(0, 2)):
        ps = "".join(";%s=%s" % (k, ",".join(v)) for k, v in params.items())
        lines.append("TEL%s:%s" % (ps, t))
        struct.append(("tel", t, params))
    if rng.random() < 0.5:
        n = rng.choice(NOTES)
        lines.append("NOTE:" + n)
        struct.append(("note", n, {}))
    lines.append("UID:card-%d" % i)
    lines.append("END:VCARD")
    return ("\r\n".join(lines) + "\r\n").encode("utf-8"), struct


def library_structure(data):
    """What vobject itself says the card contains (text-valued lines only)."""
    import vobject
    card = vobject.readOne(data.decode("utf-8"))
    out = []
    for name, lst in card.contents.items():
        for cl in lst:
            if isinstance(cl.value, str) and name in ("fn", "email", "tel", "note"):
                out.append((name, cl.value, {k: list(v) for k, v in cl.params.items()}))
    return out


COLLS = ["i;ascii-casemap", "i;octet", "i;unicode-casemap", None]
MTYPES = ["equals", "contains", "starts-with", "ends-with", None]
TEXTS = ["alice", "Alice", "ALICE", "bob", "example", "EXAMPLE.COM", "Zoë", "zoë", "ß", "张", "😀", "", "+1", "0100",
         "note", "é", "home", "work", "x",
         "Zoe\u0308", "Mu\u0308ller", "Müller", "e\u0308",   # NFD and NFC spellings are different strings
         "Ann ", " Lee", " ", "alice ", " bob"]          # blanks are part of the text


def gen_tm(rng, texts=TEXTS):
    return {"collation": rng.choice(COLLS), "negate": rng.random() < 0.25, "mtype": rng.choice(MTYPES),
            "text": rng.choice(texts)}


def gen_cross_instance_filter(rng, members):
    """A prop-filter whose children are derived from *different* instances of a repeated property:
    separates 'one instance satisfies all children' (allof) from 'each child is satisfied by some
    instance'."""
    cands = []
    for _name, struct, _data in members:
        for prop in ("email", "tel"):
            inst = [(v, params) for (n, v, params) in struct if n == prop]
            if len(inst) >= 2 and inst[0][0] != inst[1][0]:
                cands.append((prop, inst))
    if not cands:
        return None
    prop, inst = rng.choice(cands)
    (v1, p1), (v2, p2) = inst[0], inst[1]
    children = [{"tm": {"collation": "i;octet", "negate": False, "mtype": rng.choice(["contains", "equals", "starts-with"]),
                        "text": v1}}]
    if p2.get("TYPE") and rng.random() < 0.5:
        children.append({"param": "TYPE", "nd": False,
                         "tms": [{"collation": "i;ascii-casemap", "negate": False, "mtype": "equals",
                                  "text": p2["TYPE"][0]}]})
    else:
        children.append({"tm": {"collation": "i;octet", "negate": rng.random() < 0.3,
                                "mtype": rng.choice(["contains", "equals", "ends-with"]), "text": v2}})
    return {"test": rng.choice([None, "allof"]),
            "props": [{"name": prop.upper(), "test": rng.choice(["allof", "allof", "anyof", None]), "nd": False,
                       "children": children}], "limit": None}


def gen_filter(rng):
    props = []
    for _ in range(rng.choice([0, 1, 1, 1, 2, 2, 3])):
        name = rng.choice(["FN", "EMAIL", "TEL", "NOTE", "fn", "X-NONE"])
        pf = {"name": name, "test": rng.choice([None, "anyof", "allof"]), "nd": False, "children": []}
        r = rng.random()
        if r < 0.15:
            pf["nd"] = True
        else:
            for _ in range(rng.choice([0, 1, 1, 2])):
                if name.upper() == "TEL" and rng.random() < 0.5:
                    pf["children"].append({"param": rng.choice(["TYPE", "X-ABSENT"]), "nd": rng.random() < 0.3,
                                           "tms": [gen_tm(rng, ["home", "HOME", "work", "voice", "o", "x"])
                                                   for _ in range(rng.choice([0, 1, 1, 2]))]})
                else:
                    pf["children"].append({"tm": gen_tm(rng)})
        props.append(pf)
    return {"test": rng.choice([None, "anyof", "allof"]), "props": props,
            "limit": rng.choice([None, None, None, 0, 1, 2])}


def tm_xml(tm):
    attrs = ""
    if tm["collation"] is not None:
        attrs += ' collation="%s"' % tm["collation"]
    if tm["negate"]:
        attrs += ' negate-condition="yes"'
    if tm["mtype"] is not None:
        attrs += ' match-type="%s"' % tm["mtype"]
    esc = tm["text"].replace("&", "&amp;").replace("<", "&lt;")
    return "<C:text-match%s>%s</C:text-match>" % (attrs, esc)


def filter_xml(f):
    out = "<C:filter%s>" % (' test="%s"' % f["test"] if f["test"] else "")
    for pf in f["props"]:
        out += '<C:prop-filter name="%s"%s>' % (pf["name"], ' test="%s"' % pf["test"] if pf["test"] else "")
        if pf["nd"]:
            out += "<C:is-not-defined/>"
        for ch in pf["children"]:
            if "tm" in ch:
                out += tm_xml(ch["tm"])
            else:
                out += '<C:param-filter name="%s">' % ch["param"]
                if ch["nd"]:
                    out += "<C:is-not-defined/>"
                else:
                    out += "".join(tm_xml(t) for t in ch["tms"])
                out += "</C:param-filter>"
        out += "</C:prop-filter>"
    out += "</C:filter>"
    if f["limit"] is not None:
        out += "<C:limit><C:nresults>%d</C:nresults></C:limit>" % f["limit"]
    return ('<?xml version="1.0" encoding="utf-8"?><C:addressbook-query xmlns:D="DAV:" xmlns:C="%s">'
            '<D:prop><D:getetag/><C:address-data/></D:prop>%s</C:addressbook-query>' % (NS, out)).encode("utf-8")


def tm_enc(tm):
    return "~".join([q(tm["collation"] or "i;ascii-casemap"), "1" if tm["negate"] else "0",
                     q(tm["mtype"] or "contains"), q(tm["text"])])


def filter_line(f):
    words = ["cquery", "~" if f["limit"] is None else str(f["limit"]), "1" if f["test"] == "allof" else "0"]
    for pf in f["props"]:
        chs = []
        for ch in pf["children"]:
            if "tm" in ch:
                chs.append("T:" + tm_enc(ch["tm"]))
            else:
                if ch["nd"]:
                    chs.append("P:%s:1:" % q(ch["param"]))
                else:
                    chs.append("P:%s:0:%s" % (q(ch["param"]), "+".join(tm_enc(t) for t in ch["tms"])))
        words.append(";".join([q(pf["name"].lower()), "1" if pf["test"] == "allof" else "0",
                               "1" if pf["nd"] else "0", "&".join(chs)]))
    return " ".join(words)


def card_line(name, struct):
    items = []
    for (n, v, params) in struct:
        ps = ";".join("%s=%s" % (q(k), ",".join(q(x) for x in vs)) for k, vs in params.items())
        items.append("|".join([q(n), q(v), ps]))
    return "card %s =%s" % (enc(name), "/".join(items))


def regen(chk):
    res = translate.generate()
    text, err = res["Collation"]
    chk.extra["translation"] = {"collation._match+collations": "ok" if text else "unavailable: " + err}
    if err:
        chk.notes.append("translation of collation.py unavailable (%s): tied by correspondence only" % err)
    else:
        transval.validate(chk, ["Collation"])


def signature(f, impl, model):
    """Name the clause of the filter that is involved, so that distinct defects stay distinct."""
    feats = set()
    for pf in f["props"]:
        if len(pf["children"]) >= 2 and pf["test"] != "allof":
            feats.add("prop-filter-anyof")
        for ch in pf["children"]:
            tms = [ch["tm"]] if "tm" in ch else ch["tms"]
            if "param" in ch and tms:
                feats.add("param-text-match")
            for t in tms:
                feats.add("mt=" + (t["mtype"] or "contains"))
    kind = "error" if impl.startswith("error") else "wrong-set"
    return "C12:%s:%s" % (kind, "+".join(sorted(feats)) or "presence")


def run_queries(chk, n_books, n_queries, cards=None, queries=None):
    for b in range(n_books):
        fe = "wsgi" if b % 2 == 0 else "aiohttp"
        prefix = chk.rng.choice(["/", "/dav/"])
        scratch = scratch_dir()
        srv = make_server(fe, scratch + "/data", prefix=prefix)
        try:
            base = prefix.rstrip("/") + BOOK + "/"
            members = []
            for i in range(len(cards) if cards else chk.rng.randint(2, 5)):
                data, struct = cards[i] if cards else gen_card(chk.rng, i)
                # the media type of a member is found from its extension, whatever its case
                name = ("c%d.vcf", "C%d.VCF", "m%d.Vcf")[i % 3] % i
                r = srv.request("PUT", base + name, {"Content-Type": "text/vcard"}, data)
                if r.status not in (201, 204):
                    continue
                lib = library_structure(data)
                if sorted(map(repr, lib)) != sorted(map(repr, struct)):
                    chk.notes.append("generator/library structure mismatch: %r vs %r" % (struct, lib))
                members.append((name, lib, data))
            members.sort(key=lambda m: m[0].encode())
            lines = ["cnew"] + [card_line(n, s) for n, s, _ in members]
            qs = list(queries) if queries else [gen_filter(chk.rng) for _ in range(n_queries)]
            for _ in range(0 if queries else max(4, n_queries // 4)):
                cf = gen_cross_instance_filter(chk.rng, members)
                if cf:
                    qs.append(cf)
            lines += [filter_line(f) for f in qs]
            out = run_driver("card", lines)[len(members) + 1:]
            for f, model in zip(qs, out):
                r = srv.request("REPORT", base, {"Depth": "1", "Content-Type": "text/xml"}, filter_xml(f))
                if r.status == 207:
                    ms = parse_multistatus(r.body)
                    names, datas = [], {}
                    for it in ms[0]:
                        path = urllib.parse.unquote(urllib.parse.urlsplit(it["href"]).path)
                        if path.rstrip("/") == urllib.parse.unquote(base).rstrip("/"):
                            continue  # the collection itself (empty filter): noted, not judged
                        n = path.rsplit("/", 1)[-1]
                        names.append(n)
                        ad = it["props"].get("{%s}address-data" % NS)
                        datas[n] = ad[1].text if ad else None
                    impl = "ok =" + ",".join(q(n) for n in names)
                    for n, s, data in members:
                        # an XML parser normalises CRLF to LF in character data
                        if n in datas and (datas[n] or "").replace("\r\n", "\n").encode("utf-8") != data.replace(b"\r\n", b"\n"):
                            chk.violation("C12:address-data-differs", f"address-data of {n} is not the stored card",
                                          {"member": n})
                else:
                    impl = "error status=%d" % r.status
                nontriv = bool(f["props"]) and any(pf["children"] or pf["nd"] for pf in f["props"])
                chk.case((tuple(s for _, s, _ in map(lambda m: (m[0], repr(m[1]), 0), members)), filter_line(f)),
                         nontrivial=nontriv)
                chk.count("queries")
                chk.count("result:" + ("error" if impl.startswith("error") else "ok"))
                if len(chk.samples) < 4:
                    chk.sample({"frontend": fe, "filter": filter_line(f), "impl": impl, "model": model})
                m_cmp = model
                if not f["props"] and f["limit"] is not None:
                    # empty filter: the collection's own response takes part in the count (noted, not judged)
                    chk.count("not-judged:empty-filter-with-limit")
                    continue
                if model.startswith("error"):
                    # unsupported collation / match type: outside the statement
                    continue
                if impl != m_cmp:
                    chk.violation(signature(f, impl, model),
                                  f"addressbook-query answered {impl} but RFC 6352 gives {model}",
                                  {"level": "http", "frontend": fe, "prefix": prefix,
                                   "cards": {n: d.decode("utf-8") for n, _, d in members},
                                   "request": filter_xml(f).decode("utf-8"), "filter": filter_line(f)})
                    chk.broke("correspondence addressbook-query", f"{filter_line(f)}: impl {impl} model {model}")
            chk.traces_validated += 1
        finally:
            srv.close()
            shutil.rmtree(scratch, ignore_errors=True)


def fixed_card(i, fn):
    lines = ["BEGIN:VCARD", "VERSION:3.0", "FN:" + fn, "N:" + fn + ";;;;", "UID:fixed-%d" % i, "END:VCARD"]
    return ("\r\n".join(lines) + "\r\n").encode("utf-8"), [("fn", fn, {})]


def unicode_book(chk):
    """a fixed address book: one name in decomposed (NFD) and one in composed (NFC) form, names that
    differ by a blank; every pattern x match type x collation x negation"""
    fns = ["Zoe\u0308 Mu\u0308ller", "Zoë Müller", "Ann Lee", "Annabel Leeds", "Joann Aleem", "Bruce McLee"]
    cards = [fixed_card(i, fn) for i, fn in enumerate(fns)]
    texts = ["Zoe\u0308", "Zoë", "Mu\u0308ller", "Müller", "Ann ", " Lee", " ", "Lee", "ann lee "]
    qs = []
    for t in texts:
        for mt in ("equals", "contains", "starts-with", "ends-with"):
            for coll in ("i;ascii-casemap", "i;octet", "i;unicode-casemap"):
                for neg in (False, True):
                    qs.append({"test": "anyof", "limit": None, "props": [
                        {"name": "FN", "test": "anyof", "nd": False,
                         "children": [{"tm": {"collation": coll, "negate": neg, "mtype": mt, "text": t}}]}]})
    run_queries(chk, 2, 0, cards=cards, queries=qs)


def param_book(chk):
    """a fixed address book for param-filter: properties with the parameter, without it, and cards
    without the property; every combination of presence test / is-not-defined / text-match"""
    def card(i, fn, extra):
        lines = ["BEGIN:VCARD", "VERSION:3.0", "FN:" + fn, "N:" + fn + ";;;;"]
        struct = [("fn", fn, {})]
        for (name, value, params) in extra:
            ps = "".join(";%s=%s" % (k, ",".join(v)) for k, v in params.items())
            lines.append("%s%s:%s" % (name.upper(), ps, value))
            struct.append((name, value, params))
        lines += ["UID:param-%d" % i, "END:VCARD"]
        return ("\r\n".join(lines) + "\r\n").encode("utf-8"), struct
    cards = [card(0, "With Type", [("tel", "+1 555 0100", {"TYPE": ["home"]}), ("email", "a@x.org", {"TYPE": ["work"]})]),
             card(1, "No Param", [("tel", "0800", {}), ("email", "b@y.org", {})]),
             card(2, "Mixed", [("tel", "+49 30 1", {"TYPE": ["work", "voice"]}), ("tel", "112", {})]),
             card(3, "Neither", [])]
    qs = []
    for prop in ("TEL", "EMAIL"):
        for param in ("TYPE", "X-ABSENT"):
            for nd in (False, True):
                for tms in ([], [("equals", "home")], [("contains", "zzz")], [("equals", "work"), ("contains", "o")]):
                    if nd and tms:
                        continue
                    for ptest in ("anyof", "allof"):
                        ch = {"param": param, "nd": nd,
                              "tms": [{"collation": "i;ascii-casemap", "negate": False, "mtype": mt, "text": t}
                                      for (mt, t) in tms]}
                        qs.append({"test": "allof", "limit": None, "props": [
                            {"name": prop, "test": ptest, "nd": False, "children": [ch]}]})
                        qs.append({"test": "allof", "limit": None, "props": [
                            {"name": "FN", "test": "anyof", "nd": False, "children": []},
                            {"name": prop, "test": ptest, "nd": False, "children": [ch]}]})
    run_queries(chk, 2, 0, cards=cards, queries=qs)


def match_grid(chk):
    """Exhaustive: every match type x collation x negate over a string grid, real code vs model."""
    from xandikos import collation
    strs = ["", "a", "A", "ab", "AB", "ba", "abc", "b", "é", "É", "aé", "z😀", "ß", "ab ", "-"]
    lines, cases = [], []
    for coll in ["i;ascii-casemap", "i;octet", "i;unicode-casemap"]:
        for mt in ["equals", "contains", "starts-with", "ends-with"]:
            for a, b in itertools.product(strs, repeat=2):
                cases.append((coll, mt, a, b))
                # one card with NOTE = a, filter text-match b
                lines.append("cnew")
                lines.append(card_line("x.vcf", [("note", a, {})]))
                lines.append("cquery ~ 0 " + ";".join(["note", "0", "0", "T:" + "~".join([q(coll), "0", q(mt), q(b)])]))
    out = run_driver("card", lines)
    for i, (coll, mt, a, b) in enumerate(cases):
        model = out[3 * i + 2]
        want = model == "ok =x.vcf"
        try:
            real = bool(collation.collations[coll](a, b, mt))
        except Exception as e:
            real = "raise:" + type(e).__name__
        chk.case(("grid", coll, mt, a, b), nontrivial=a != b)
        if real != want:
            chk.violation(f"C12:collation:{coll}:{mt}:{'raise' if isinstance(real, str) else 'wrong'}",
                          f"collations[{coll!r}]({a!r}, {b!r}, {mt!r}) = {real} but RFC 4790/6352 give {want}",
                          {"level": "function", "collation": coll, "match_type": mt, "a": a, "b": b})
    chk.count("collation_grid", len(cases))
    chk.extra["exhaustive_collation_grid"] = True


def run(chk):
    chk.rule = ("(1) exhaustive grid match-type x collation x 15x15 strings (ASCII, case variants, Latin-1, emoji) "
                "through the real collation functions and the model; (2) generated address books (2-5 cards, "
                "ASCII/Latin/CJK/emoji names, multi-valued EMAIL/TEL, TYPE parameters) queried through the real "
                "REPORT with generated filters (anyof/allof at both levels, is-not-defined, 1-2 text-matches per "
                "prop-filter with every match-type/collation/negation, param-filters, nresults in {none,0,1,2}); "
                "the model is proved equal to the RFC 6352 spec, so a differing answer is a violation; non-trivial = "
                "filter has a text-match, param-filter or is-not-defined")
    chk.lean_obligations(MODULE, AUDIT, regen=regen)
    match_grid(chk)
    quick = chk.tier == "quick"
    run_queries(chk, 6 if quick else 60, 25 if quick else 60)
    unicode_book(chk)
    param_book(chk)


def replay(chk, path):
    rep = json.load(open(path))
    r = rep.get("replay", rep)
    if r.get("level") == "function":
        from xandikos import collation
        try:
            real = collation.collations[r["collation"]](r["a"], r["b"], r["match_type"])
        except Exception as e:
            real = "raise:" + type(e).__name__
        print("collations[%r](%r, %r, %r) = %r" % (r["collation"], r["a"], r["b"], r["match_type"], real))
        return 0
    scratch = scratch_dir()
    srv = make_server(r["frontend"], scratch + "/data", prefix=r["prefix"])
    try:
        base = r["prefix"].rstrip("/") + BOOK + "/"
        for n, d in r["cards"].items():
            srv.request("PUT", base + n, {"Content-Type": "text/vcard"}, d.encode("utf-8"))
        resp = srv.request("REPORT", base, {"Depth": "1", "Content-Type": "text/xml"}, r["request"].encode("utf-8"))
        print(resp.status, resp.body[:1500].decode("utf-8", "replace"))
    finally:
        srv.close()
        shutil.rmtree(scratch, ignore_errors=True)
    return 0
