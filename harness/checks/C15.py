"""C15 — collection properties read back as written, persist, and stay separate."""
import json
import os
import shutil
import subprocess
import xml.etree.ElementTree as ET

import compat  # noqa: F401
from bodies import Tokens, vevent
from common import DRIVER, VERIF, scratch_dir
from httpdrv import make_server, parse_multistatus
from storefam import gen_many, replay_store, run_templates

AUDIT = "Audit/C15.lean"
MODULE = "Xandikos.Theorems.C15"
PREFIXES = ("C15:",)

CAL = "/user/calendars/calendar"
BOOK = "/user/contacts/addressbook"
NS = {"D": "DAV:", "C": "urn:ietf:params:xml:ns:caldav", "CR": "urn:ietf:params:xml:ns:carddav",
      "A": "http://apple.com/ns/ical/", "I": "http://inf-it.com/ns/ab/"}
# property -> (clark name, collection kinds it applies to)
PROPS = {
    "displayname": ("{DAV:}displayname", ("calendar", "addressbook")),
    "comment": ("{DAV:}comment", ("calendar", "addressbook")),
    "calendar-color": ("{http://apple.com/ns/ical/}calendar-color", ("calendar",)),
    "calendar-order": ("{http://apple.com/ns/ical/}calendar-order", ("calendar",)),
    "addressbook-description": ("{urn:ietf:params:xml:ns:carddav}addressbook-description", ("addressbook",)),
    "addressbook-color": ("{http://inf-it.com/ns/ab/}addressbook-color", ("addressbook",)),
}
# which stored key a property uses: two properties sharing a key are one property under two names
KEY = {"displayname": "displayname", "comment": "comment", "calendar-color": "color", "calendar-order": "order",
       "addressbook-description": "description", "addressbook-color": "color"}

TEXTS = ["Work", "Privé ✓", "50% off", "a%%b", "%(color)s", "x = y", "[sec]", "# not a comment", "; nor this",
         "quote \" q 'x'", "a: b", "key = value : other", "[DEFAULT]", "日本語のカレンダー", "tab\tinside", "a  b",
         "two\nlines", "three\n\nlines", "ends with =", "=starts", ":starts", "100%", "%", "%%", "%(x", "\\n literal"]
# values the configparser format cannot carry (recorded finding C15-multiline)
UNSAFE_TEXTS = ["a\n#b", "a\n;b", "a\n b", "a\n\tb"]
COLORS = ["#ff0000", "#00FF00aa", "#123456", "#abcdef12"]
ORDERS = ["1", "7", "42", "0"]


def xml_escape(s):
    return s.replace("&", "&amp;").replace("<", "&lt;").replace(">", "&gt;")


def el_xml(prop, value):
    clark = PROPS[prop][0]
    ns, local = clark[1:].split("}")
    return '<x:%s xmlns:x="%s">%s</x:%s>' % (local, ns, xml_escape(value), local)


def proppatch_body(prop, value):
    return ('<?xml version="1.0" encoding="utf-8"?><D:propertyupdate xmlns:D="DAV:"><D:set><D:prop>%s</D:prop></D:set>'
            '</D:propertyupdate>' % el_xml(prop, value)).encode("utf-8")


def propfind_body(props):
    inner = "".join('<x:%s xmlns:x="%s"/>' % (PROPS[p][0][1:].split("}")[1], PROPS[p][0][1:].split("}")[0]) for p in props)
    return ('<?xml version="1.0" encoding="utf-8"?><D:propfind xmlns:D="DAV:"><D:prop>%s</D:prop></D:propfind>' % inner
            ).encode("utf-8")


def read_props(srv, prefix, cpath, props):
    r = srv.request("PROPFIND", prefix.rstrip("/") + cpath + "/", {"Depth": "0", "Content-Type": "text/xml"},
                    propfind_body(props))
    out = {}
    ms = parse_multistatus(r.body) if r.status == 207 else None
    if not ms or not ms[0]:
        return None
    for p in props:
        pv = ms[0][0]["props"].get(PROPS[p][0])
        if pv is None:
            out[p] = ("missing", None)
        else:
            out[p] = (pv[0], pv[1].text)
    return out


def set_prop(srv, prefix, cpath, prop, value):
    r = srv.request("PROPPATCH", prefix.rstrip("/") + cpath + "/", {"Content-Type": "text/xml"},
                    proppatch_body(prop, value))
    if r.status != 207:
        return "status%d" % r.status
    ms = parse_multistatus(r.body)
    if not ms or not ms[0]:
        return "unparsed"
    pv = ms[0][0]["props"].get(PROPS[prop][0])
    return pv[0] if pv else "noprop"


def set_props(srv, prefix, cpath, pairs, separate, refused_at=None):
    """one PROPPATCH setting several properties, in the given order -> {prop: status}.
    refused_at: position at which an instruction the server cannot carry out (setting the live property
    DAV:getetag) is put among the others — what it acknowledges for the others still has to be what it did"""
    els = [el_xml(p, v) for p, v in pairs]
    if refused_at is not None:
        els.insert(min(refused_at, len(els)), "<D:getetag>&quot;made-up&quot;</D:getetag>")
    if separate:
        inner = "".join("<D:set><D:prop>%s</D:prop></D:set>" % e for e in els)
    else:
        inner = "<D:set><D:prop>%s</D:prop></D:set>" % "".join(els)
    body = ('<?xml version="1.0" encoding="utf-8"?><D:propertyupdate xmlns:D="DAV:">%s</D:propertyupdate>' % inner).encode("utf-8")
    r = srv.request("PROPPATCH", prefix.rstrip("/") + cpath + "/", {"Content-Type": "text/xml"}, body)
    if r.status != 207:
        return {p: "status%d" % r.status for p, _ in pairs}
    ms = parse_multistatus(r.body)
    if not ms or not ms[0]:
        return {p: "unparsed" for p, _ in pairs}
    out = {}
    for p, _ in pairs:
        pv = ms[0][0]["props"].get(PROPS[p][0])
        out[p] = pv[0] if pv else "noprop"
    return out


def members_snapshot(srv, prefix, cpaths):
    snap = {}
    for cp in cpaths:
        r = srv.request("PROPFIND", prefix.rstrip("/") + cp + "/", {"Depth": "1"})
        ms = parse_multistatus(r.body) if r.status == 207 else None
        for it in (ms[0] if ms else []):
            et = it["props"].get("{DAV:}getetag")
            if not (it["href"] or "").endswith("/"):
                snap[it["href"]] = et[1].text if et else None
    return snap


def http_part(chk, n_hist, length, unsafe=False):
    kinds = {CAL: "calendar", BOOK: "addressbook", "/user/calendars/second": "calendar"}
    for h in range(n_hist):
        fe = "wsgi" if h % 2 == 0 else "aiohttp"
        prefix = chk.rng.choice(["/", "/dav/"])
        scratch = scratch_dir()
        srv = make_server(fe, scratch + "/data", prefix=prefix)
        history = []
        try:
            base = prefix.rstrip("/")
            r = srv.request("MKCALENDAR", base + "/user/calendars/second", {})
            srv.request("PUT", base + CAL + "/a.ics", {"Content-Type": "text/calendar"}, vevent("m1"))
            srv.request("PUT", base + BOOK + "/k.vcf", {"Content-Type": "text/vcard"},
                        b"BEGIN:VCARD\r\nVERSION:3.0\r\nFN:A\r\nN:A;;;;\r\nEND:VCARD\r\n")
            expect = {}  # (cpath, stored key) -> value last acknowledged
            snap0 = members_snapshot(srv, prefix, list(kinds))
            for step in range(length):
                r = chk.rng.random()
                cpath = chk.rng.choice(list(kinds))
                if r < 0.12:
                    srv.restart()
                    history.append("restart")
                elif r < 0.40:
                    # several properties in one request (what calendar clients send), order varied
                    cands = [p for p, (_, ks) in PROPS.items() if kinds[cpath] in ks]
                    chk.rng.shuffle(cands)
                    pairs, seen_keys = [], set()
                    for p in cands[:chk.rng.randint(2, 4)]:
                        if KEY[p] in seen_keys:
                            continue
                        seen_keys.add(KEY[p])
                        v = chk.rng.choice(COLORS) if "color" in p else chk.rng.choice(ORDERS) if "order" in p else \
                            chk.rng.choice([t for t in TEXTS if "\n" not in t])
                        pairs.append((p, v))
                    if chk.rng.random() < 0.5:
                        pairs.sort(key=lambda pv: "order" in pv[0])      # calendar-order last
                    refused_at = chk.rng.randint(0, len(pairs)) if chk.rng.random() < 0.4 else None
                    sts = set_props(srv, prefix, cpath, pairs, separate=chk.rng.random() < 0.4, refused_at=refused_at)
                    history.append(["PROPPATCH*", cpath, [[p, v, sts[p]] for p, v in pairs]] +
                                   ([["with a refused instruction (set DAV:getetag) at position", refused_at]] if refused_at is not None else []))
                    if refused_at is not None:
                        chk.count("proppatch-multi-with-a-refused-instruction")
                    chk.count("proppatch-multi")
                    for p, v in pairs:
                        if sts[p] == "200":
                            expect[(cpath, KEY[p])] = v
                else:
                    prop = chk.rng.choice([p for p, (_, ks) in PROPS.items() if kinds[cpath] in ks])
                    others = [v for (cp2, k2), v in expect.items() if cp2 == cpath and k2 != KEY[prop]
                              and k2 not in ("color", "order")]
                    if "color" not in prop and "order" not in prop and others and chk.rng.random() < 0.3:
                        # the value another property of this collection holds right now
                        val = chk.rng.choice(others)
                        st = set_prop(srv, prefix, cpath, prop, val)
                        history.append(["PROPPATCH", cpath, prop, val, st])
                        chk.count("proppatch-same-value-as-another-property")
                        if st == "200":
                            expect[(cpath, KEY[prop])] = val
                        prop = None
                if r >= 0.40 and prop is not None:
                    if "color" in prop:
                        val = chk.rng.choice(COLORS)
                    elif "order" in prop:
                        val = chk.rng.choice(ORDERS)
                    else:
                        val = chk.rng.choice(UNSAFE_TEXTS if (unsafe and chk.rng.random() < 0.5) else TEXTS)
                    st = set_prop(srv, prefix, cpath, prop, val)
                    history.append(["PROPPATCH", cpath, prop, val, st])
                    chk.count("proppatch:" + st)
                    if st == "200":
                        expect[(cpath, KEY[prop])] = val
                # read back everything on every collection
                for cp, kind in kinds.items():
                    props = [p for p, (_, ks) in PROPS.items() if kind in ks]
                    got = read_props(srv, prefix, cp, props)
                    if got is None:
                        chk.violation("C15:propfind-failed@" + fe, f"PROPFIND of {cp} failed",
                                      {"level": "http", "frontend": fe, "prefix": prefix, "history": history})
                        continue
                    for p in props:
                        want = expect.get((cp, KEY[p]))
                        status, text = got[p]
                        if want is None:
                            continue  # never set: default/absent values are not judged
                        if status != "200" or (text or "") != want:
                            multiline_unsafe = want in UNSAFE_TEXTS
                            sig = "C15:multiline-value-mangled" if multiline_unsafe else \
                                "C15:property-read-differs-from-acknowledged-set:" + p
                            chk.violation(sig + "@" + fe,
                                          f"{p} of {cp} was set to {want!r} (200) but reads back {status} {text!r}",
                                          {"level": "http", "frontend": fe, "prefix": prefix, "history": history,
                                           "collection": cp, "property": p, "expected": want, "got": [status, text]})
                if members_snapshot(srv, prefix, list(kinds)) != snap0:
                    chk.violation("C15:property-change-altered-members@" + fe,
                                  "a PROPPATCH changed the members of a collection",
                                  {"level": "http", "frontend": fe, "prefix": prefix, "history": history})
            chk.case(hash((fe, prefix, json.dumps(history, sort_keys=True))), nontrivial=len(expect) >= 2)
            if h < 2:
                chk.sample({"frontend": fe, "prefix": prefix, "history": history[:8]})
            chk.traces_validated += 1
        finally:
            srv.close()
            shutil.rmtree(scratch, ignore_errors=True)


def same_value_probe(chk):
    """two properties of one collection given the same text: both must read it back"""
    for fe in ("wsgi", "aiohttp"):
        scratch = scratch_dir()
        srv = make_server(fe, scratch + "/data", prefix="/")
        try:
            for cp, seq in ((BOOK, ["addressbook-description", "comment", "displayname"]),
                            (CAL, ["displayname", "comment"]), (BOOK, ["comment", "addressbook-description"])):
                hist = []
                for i, prop in enumerate(seq):
                    val = "same text for all %s" % cp[-4:]
                    st = set_prop(srv, "/", cp, prop, val)
                    hist.append(["PROPPATCH", cp, prop, val, st])
                    got = read_props(srv, "/", cp, seq[:i + 1])
                    chk.case(("same-value", fe, cp, tuple(seq[:i + 1])))
                    for q in seq[:i + 1]:
                        if st == "200" and got and got[q] != ("200", val):
                            chk.violation("C15:property-read-differs-from-acknowledged-set:" + q + "@" + fe,
                                          f"{q} of {cp} set to {val!r} (200) reads back {got[q]!r} after {prop} was given the same text",
                                          {"level": "http", "frontend": fe, "prefix": "/", "history": hist})
        finally:
            srv.close()
            shutil.rmtree(scratch, ignore_errors=True)


def back_and_forth_probe(chk):
    """a property set to A, then B, then A again (the metadata file returns to bytes it had before):
    it must read A; likewise across two properties and with a member write in between"""
    for fe in ("wsgi", "aiohttp"):
        scratch = scratch_dir()
        srv = make_server(fe, scratch + "/data", prefix="/")
        try:
            for cp, prop, a, b in ((CAL, "displayname", "Red team", "Blue team"),
                                   (CAL, "calendar-color", "#ff0000", "#0000ff"),
                                   (BOOK, "addressbook-description", "first", "second"),
                                   (BOOK, "displayname", "x", "y z")):
                hist = []
                for step, val in enumerate([a, b, a, b, a]):
                    st = set_prop(srv, "/", cp, prop, val)
                    hist.append(["PROPPATCH", cp, prop, val, st])
                    got = read_props(srv, "/", cp, [prop])
                    chk.case(("back-and-forth", fe, cp, prop, step))
                    if st == "200" and got and got[prop] != ("200", val):
                        chk.violation("C15:property-read-differs-from-acknowledged-set:" + prop + "@" + fe,
                                      f"{prop} of {cp} set to {val!r} (200) — a value it had before — reads back {got[prop]!r}",
                                      {"level": "http", "frontend": fe, "prefix": "/", "history": hist})
        finally:
            srv.close()
            shutil.rmtree(scratch, ignore_errors=True)


def multiline_probe(chk):
    """Deterministic replay of the recorded finding KF-C15-multiline (and its safe neighbours)."""
    for fe in ("wsgi", "aiohttp"):
        scratch = scratch_dir()
        srv = make_server(fe, scratch + "/data", prefix="/")
        try:
            for val in UNSAFE_TEXTS + ["a\nb", "a\n\nb"]:
                st = set_prop(srv, "/", CAL, "displayname", val)
                got = read_props(srv, "/", CAL, ["displayname"])
                chk.case(("multiline", fe, val))
                if st == "200" and got and got["displayname"] != ("200", val):
                    sig = "C15:multiline-value-mangled" if val in UNSAFE_TEXTS else \
                        "C15:property-read-differs-from-acknowledged-set:displayname"
                    chk.violation(sig + "@" + fe,
                                  f"displayname set to {val!r} (200) reads back {got['displayname']!r}",
                                  {"level": "http", "frontend": fe, "prefix": "/",
                                   "history": [["PROPPATCH", CAL, "displayname", val, st]]})
        finally:
            srv.close()
            shutil.rmtree(scratch, ignore_errors=True)


def gitconfig_part(chk, n_hist, length):
    """git-config metadata back end ([xandikos] section pre-seeded): monitor only."""
    from xandikos.store.git import TreeGitStore, GitStore
    for h in range(n_hist):
        scratch = scratch_dir()
        try:
            path = os.path.join(scratch, "coll")
            store = TreeGitStore.create(path)
            cfg = store.repo.get_config()
            cfg.set(b"xandikos", b"type", b"calendar")
            cfg.write_to_path()
            store = GitStore.open_from_path(path)
            expect = {}
            hist = []
            for i in range(length):
                if chk.rng.random() < 0.15:
                    store = GitStore.open_from_path(path)
                    hist.append("reopen")
                key = chk.rng.choice(["displayname", "comment", "color", "description", "order"])
                val = chk.rng.choice(COLORS) if key == "color" else chk.rng.choice(ORDERS) if key == "order" else \
                    chk.rng.choice([t for t in TEXTS if ";" not in t and ("\n" not in t or key == "description")])
                if i < 2 and h % 2 == 0:
                    # the description lives in a file of its own (.git/description): several lines are one value
                    key, val = "description", ["two\nlines", "three\n\nlines"][i]
                try:
                    if key == "order":
                        store.config.set_order(val)
                    else:
                        getattr(store, "set_" + key)(val)
                    expect[key] = val
                    hist.append(["set", key, val, "ok"])
                except Exception as e:
                    hist.append(["set", key, val, "raise " + type(e).__name__])
                for k, want in expect.items():
                    try:
                        got = store.config.get_order() if k == "order" else getattr(store, "get_" + k)()
                    except Exception as e:
                        got = "raise " + type(e).__name__
                    if got != want:
                        chk.violation("C15:gitconfig-read-differs:" + k,
                                      f"git-config back end: {k} set to {want!r} reads back {got!r}",
                                      {"level": "store-gitconfig", "history": hist})
            chk.case(hash(json.dumps(hist)), nontrivial=len(expect) >= 2)
            chk.traces_validated += 1
        finally:
            shutil.rmtree(scratch, ignore_errors=True)


def ini_differential(chk, cases):
    script = os.path.join(VERIF, "harness", "pylib", "pylib_ini.py")
    env = dict(os.environ, VERIF_SEED=str(chk.seed), VERIF_CASES=str(cases), VERIF_FUZZ=str(cases // 3))
    p = subprocess.run(["/venv/bin/python", script, DRIVER + " pyini"], capture_output=True, text=True, env=env,
                       timeout=3600)
    try:
        res = json.loads(p.stdout)
    except Exception:
        chk.broke("correspondence configparser model", "pylib_ini.py did not produce JSON: " + (p.stdout + p.stderr)[-500:])
        return
    chk.extra["configparser_differential"] = {k: res.get(k) for k in ("n_configs", "n_requests", "n_disagreements")
                                              if k in res}
    chk.evaluations += int(res.get("n_requests") or cases)
    if res.get("n_disagreements"):
        chk.broke("correspondence configparser model", json.dumps(res.get("disagreements", [])[:3])[:1500])


def run(chk):
    chk.rule = ("(1) the Lean configparser model against CPython on generated configs rich in metacharacters; "
                "(2) store-level histories interleaving set/remove of displayname, description, color, comment, order "
                "with member writes and restarts on bare and tree stores, every property read back after every step "
                "(model computes the exact bytes of .xandikos); (3) PROPPATCH/PROPFIND over HTTP on three collections "
                "through both front ends with restarts, values from a metacharacter list (%, quotes, brackets, #, ;, =, "
                ":, non-ASCII, multi-line), all properties of all collections and all members re-read after every step; "
                "(4) the git-config back end with a pre-seeded [xandikos] section. non-trivial = at least two "
                "acknowledged sets")
    chk.lean_obligations(MODULE, AUDIT)
    quick = chk.tier == "quick"
    ini_differential(chk, 1500 if quick else 50000)
    toks = Tokens()
    tmpls = gen_many(chk, toks, 6 if quick else 100, 22, "meta")
    run_templates(chk, tmpls, toks, PREFIXES, kinds=["bare-mem", "bare-disk", "tree"], label="store-meta")
    http_part(chk, 4 if quick else 40, 14 if quick else 30)
    multiline_probe(chk)
    same_value_probe(chk)
    back_and_forth_probe(chk)
    gitconfig_part(chk, 3 if quick else 40, 15 if quick else 40)


def replay(chk, path):
    rep = json.load(open(path))
    if rep.get("replay", rep).get("level") == "store":
        return replay_store(chk, rep, PREFIXES)
    print(json.dumps(rep, indent=1)[:4000])
    return 0
