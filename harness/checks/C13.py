"""C13 — no request can touch the file system outside the data directory."""
import json
import os
import posixpath
import shutil
import sys
import urllib.parse

import compat  # noqa: F401
from bodies import enc, vevent, vcard
from common import run_driver, scratch_dir
from httpdrv import make_server
import translate
import transval

AUDIT = "Audit/C13.lean"
MODULE = "Xandikos.Theorems.C13"

# ---------------------------------------------------------------------------
# file-system audit (Python audit events)

REC = {"on": False, "events": []}
PATH_EVENTS = {
    "open": (0,), "os.mkdir": (0,), "os.rmdir": (0,), "os.remove": (0,), "os.unlink": (0,),
    "os.rename": (0, 1), "os.replace": (0, 1), "os.scandir": (0,), "os.listdir": (0,),
    "shutil.rmtree": (0,), "os.truncate": (0,), "os.chmod": (0,), "os.link": (0, 1),
    "os.symlink": (0, 1), "os.utime": (0,), "shutil.copyfile": (0, 1), "shutil.move": (0, 1),
    "os.chdir": (0,), "os.mkfifo": (0,), "os.chown": (0,),
}


def _hook(event, args):
    if not REC["on"]:
        return
    idx = PATH_EVENTS.get(event)
    if idx is None:
        return
    for i in idx:
        if i < len(args):
            p = args[i]
            if isinstance(p, bytes):
                p = p.decode("utf-8", "surrogateescape")
            if isinstance(p, str):
                mode = args[1] if event == "open" and len(args) > 1 else None
                REC["events"].append((event, p, mode))


_INSTALLED = False


def install_hook():
    global _INSTALLED
    if not _INSTALLED:
        sys.addaudithook(_hook)
        _INSTALLED = True


def snapshot(d):
    out = {}
    for root, dirs, files in os.walk(d):
        for n in dirs:
            out[os.path.join(root, n)] = "dir"
        for n in files:
            p = os.path.join(root, n)
            try:
                out[p] = open(p, "rb").read()
            except OSError:
                out[p] = None
    return out


# ---------------------------------------------------------------------------
# adversarial request targets

SEGS = ["..", ".", "%2e%2e", "%2E%2E", "%2e.", "..%2f", "..%2f..%2f", "%2e%2e%2f", "", "user", "calendars",
        "calendar", "contacts", "addressbook", "x", "a.ics", "..;", "....", "%2f", "%2F..", "..%5c",
        "%E2%80%A5", "%c0%ae%c0%ae", "%252e%252e", "decoy", "datax", "c%20d"]


# last segments for a member of an existing collection: encoded (once, twice) ways out of it
EVIL_LAST = ["..%2F..%2F..%2F..%2Fesc.ics", "..%252F..%252F..%252F..%252Fesc.ics", "..%252f..%252f..%252f..%252fdecoy%252fesc.ics",
             "%252e%252e%252f%252e%252e%252f%252e%252e%252f%252e%252e%252fesc.ics", "..%255c..%255cesc.ics",
             "%2e%2e%2f%2e%2e%2f%2e%2e%2f%2e%2e%2fdatax%2fesc.vcf", "..%25252F..%25252F..%25252F..%25252Fesc.ics",
             "x%252F..%252F..%252F..%252F..%252F..%252Fesc.ics",
             # characters whose Unicode compatibility (NFKC/NFKD) form is a dot, two dots or a slash: harmless
             # text for every path function, separators for anything that normalises afterwards
             "%EF%BC%8E%EF%BC%8E%EF%BC%8F%EF%BC%8E%EF%BC%8E%EF%BC%8F%EF%BC%8E%EF%BC%8E%EF%BC%8F%EF%BC%8E%EF%BC%8E%EF%BC%8Fdecoy%EF%BC%8Fesc.ics", "%E2%80%A5%EF%BC%8F%E2%80%A5%EF%BC%8F%E2%80%A5%EF%BC%8F%E2%80%A5%EF%BC%8Fdatax%EF%BC%8Fesc.vcf", "%EF%BC%8E%EF%BC%8E%EF%BC%8F%E2%80%A5%EF%BC%8F%EF%BC%8E%EF%BC%8E%EF%BC%8F%E2%80%A5%EF%BC%8Fesc.ics"]


# characters that a "sanitising" step may delete: a segment that only becomes `..` once they are gone is an
# ordinary name for every path function that ran before
STRIPPED = ["%00", "%0D", "%0A", "%09", "%7F", "%E2%80%8B", "%C2%AD", "%EF%BB%BF"]


def strip_targets(prefix):
    p = prefix.rstrip("/")
    out = []
    for c in STRIPPED:
        d = "." + c + "."
        out += [("MKCOL", f"{p}/{d}/decoy/pwn"), ("MKCALENDAR", f"{p}/{d}/{d}/decoy/pwn2/"),
                ("GET", f"{p}/{d}/decoy/secret.ics"), ("PUT", f"{p}/user/{d}/{d}/decoy/x.ics"),
                ("DELETE", f"{p}/{d}/decoy/secret.ics"), ("PROPFIND", f"{p}/{d}/datax/"),
                ("PUT", f"{p}/user/calendars/calendar/{d}/{d}/{d}/{d}/decoy/esc.ics"),
                ("GET", f"{p}/{c}../decoy/secret.ics"), ("DELETE", f"{p}/..{c}/datax/secret.vcf")]
    return out


def gen_target(rng, prefix):
    if rng.random() < 0.12:
        return prefix.rstrip("/") + rng.choice(["/user/calendars/calendar/", "/user/contacts/addressbook/"]) + rng.choice(EVIL_LAST)
    n = rng.randint(1, 6)
    segs = [rng.choice(SEGS) for _ in range(n)]
    if rng.random() < 0.5:
        segs = ["user", rng.choice(["calendars", "contacts", "x"])] + segs
    t = "/".join(segs)
    lead = rng.choice(["/", "/", "//", "/./", "/../"])
    target = prefix.rstrip("/") + lead + t
    if rng.random() < 0.2:
        target += "/"
    return target


METHODS = ["GET", "HEAD", "PUT", "POST", "DELETE", "MKCOL", "MKCALENDAR", "PROPFIND", "PROPPATCH", "REPORT", "OPTIONS"]

PROPPATCH = (b'<?xml version="1.0"?><D:propertyupdate xmlns:D="DAV:"><D:set><D:prop><D:displayname>x</D:displayname>'
             b'</D:prop></D:set></D:propertyupdate>')


# UIDs that read as paths: the server must never derive a file name from them unescaped
EVIL_UIDS = ["../../../../decoy/pwn", "../../../esc", "../../../../datax/pwn", "/tmp-like/abs", "a/../../../../decoy/x",
             "..%2F..%2F..%2F..%2Fdecoy%2Fpwn", "..", ".git/hooks/post-commit"]


def body_for(rng, method, prefix):
    if method == "PUT" or method == "POST":
        if rng.random() < 0.35:
            uid = rng.choice(EVIL_UIDS)
            if rng.random() < 0.6:
                return {"Content-Type": "text/calendar"}, vevent(uid)
            return {"Content-Type": "text/vcard"}, vcard("A", uid=uid)
        if rng.random() < 0.5:
            return {"Content-Type": "text/calendar"}, vevent("u%d" % rng.randint(1, 3))
        return {"Content-Type": "text/vcard"}, vcard("A")
    if method == "PROPFIND":
        return {"Depth": rng.choice(["0", "1"])}, b""
    if method == "PROPPATCH":
        return {"Content-Type": "text/xml"}, PROPPATCH
    if method == "REPORT":
        hrefs = "".join("<D:href>%s</D:href>" % gen_target(rng, prefix).replace("&", "&amp;").replace("<", "&lt;")
                        for _ in range(3))
        kind = rng.choice(["calendar", "addressbook"])
        ns = "urn:ietf:params:xml:ns:caldav" if kind == "calendar" else "urn:ietf:params:xml:ns:carddav"
        data = "calendar-data" if kind == "calendar" else "address-data"
        b = ('<?xml version="1.0"?><X:%s-multiget xmlns:D="DAV:" xmlns:X="%s"><D:prop><D:getetag/><X:%s/></D:prop>%s'
             '</X:%s-multiget>' % (kind, ns, data, hrefs, kind)).encode()
        return {"Content-Type": "text/xml", "Depth": "1"}, b
    if method in ("MKCOL", "MKCALENDAR"):
        return {}, b""
    return {}, b""


def lexically_inside(path, root):
    n = os.path.normpath(path)
    return n == root or n.startswith(root + os.sep)


def server_audit(chk, n_requests):
    install_hook()
    for fe in ("wsgi", "aiohttp"):
        for prefix in ("/", "/dav/"):
            scratch = scratch_dir("xv-c13-")
            root = os.path.join(scratch, "data")
            os.makedirs(os.path.join(scratch, "decoy"))
            os.makedirs(os.path.join(scratch, "datax"))
            open(os.path.join(scratch, "decoy", "secret.ics"), "wb").write(vevent("decoy"))
            open(os.path.join(scratch, "datax", "secret.vcf"), "wb").write(vcard("decoy"))
            # the data directory lies inside somebody else's git working tree
            import subprocess
            genv = dict(os.environ, GIT_CONFIG_NOSYSTEM="1", HOME=scratch, GIT_AUTHOR_NAME="o", GIT_AUTHOR_EMAIL="o@x",
                        GIT_COMMITTER_NAME="o", GIT_COMMITTER_EMAIL="o@x")
            subprocess.run(["git", "init", "-q", scratch], env=genv, capture_output=True)
            subprocess.run(["git", "-C", scratch, "add", "decoy", "datax"], env=genv, capture_output=True)
            subprocess.run(["git", "-C", scratch, "commit", "-q", "-m", "outer"], env=genv, capture_output=True)
            # another instance with a root of its own lives in the same process (one WSGI mount per user) and
            # has served a request already: nothing the instance under test does may reach its directory
            other = make_server("wsgi", os.path.join(scratch, "neighbour", "data"), prefix=prefix)
            other.request("PUT", prefix.rstrip("/") + "/user/calendars/calendar/n.ics", {"Content-Type": "text/calendar"},
                          vevent("neighbour"))
            other.request("PROPFIND", prefix.rstrip("/") + "/user/contacts/addressbook/", {"Depth": "1"}, b"")
            srv = make_server(fe, root, prefix=prefix)
            try:
                # some legitimate content first
                base = prefix.rstrip("/") + "/user/calendars/calendar/"
                srv.request("PUT", base + "a.ics", {"Content-Type": "text/calendar"}, vevent("ok1"))
                before = {k: v for k, v in snapshot(scratch).items() if not k.startswith(root)}
                # first, every "way out of an existing collection" with every writing method; then random targets
                fixed = [(m_, prefix.rstrip("/") + c_ + e_) for e_ in EVIL_LAST
                         for (m_, c_) in (("PUT", "/user/calendars/calendar/"), ("PUT", "/user/contacts/addressbook/"),
                                          ("DELETE", "/user/calendars/calendar/"), ("MKCALENDAR", "/user/calendars/"))]
                fixed += strip_targets(prefix)
                for i in range(len(fixed) + n_requests):
                    method = chk.rng.choice(METHODS)
                    if method == "OPTIONS" and chk.rng.random() < 0.7:
                        method = chk.rng.choice(["MKCOL", "MKCALENDAR", "DELETE", "PUT"])
                    target = gen_target(chk.rng, prefix)
                    if i < len(fixed):
                        method, target = fixed[i]
                    if method == "POST" and chk.rng.random() < 0.6:
                        # add-member on a collection that exists: the server picks the member's name
                        target = prefix.rstrip("/") + chk.rng.choice(["/user/calendars/calendar/", "/user/contacts/addressbook/",
                                                                         "/user/calendars/calendar"])
                    hdrs, body = body_for(chk.rng, method, prefix)
                    REC["events"] = []
                    REC["on"] = True
                    try:
                        resp = srv.request(method, target, hdrs, body)
                    finally:
                        REC["on"] = False
                    evs = list(REC["events"])
                    import guard
                    while guard.BLOCKED:
                        ev, bp = guard.BLOCKED.pop()
                        chk.violation(f"C13:write-outside-the-scratch-area-refused:{method}@{fe}",
                                      f"{method} {target} via {fe} attempted {ev}({bp!r}) — outside the data root and "
                                      f"outside the scratch area (refused by the harness guard)",
                                      {"level": "http", "frontend": fe, "prefix": prefix, "method": method, "target": target,
                                       "event": ev, "path": bp, "headers": hdrs, "body": body.decode("latin-1")})
                    decoded = urllib.parse.unquote(target)
                    escapes = ".." in posixpath.normpath("/x/y/z" + decoded[len(prefix.rstrip("/")):]).split("/") or \
                        not posixpath.normpath("/x/y/z" + decoded[len(prefix.rstrip("/")):]).startswith("/x/y/z")
                    chk.case((fe, prefix, method, target), nontrivial=(".." in decoded or "%2" in target.lower()))
                    chk.count(f"{fe}:{method}:{resp.status}")
                    if i < 3 and prefix == "/":
                        chk.sample({"frontend": fe, "request": method + " " + target, "status": resp.status,
                                    "fs_events": len(evs)})
                    for (ev, p, mode) in evs:
                        ap = os.path.abspath(p) if not os.path.isabs(p) else p
                        if not ap.startswith(scratch):
                            continue
                        if os.path.normpath(ap) == root and ev in ("os.rmdir", "os.remove", "os.unlink", "os.rename", "os.replace",
                                                                   "shutil.rmtree", "shutil.move", "os.chmod", "os.symlink"):
                            chk.violation(f"C13:root-directory-itself-modified:{method}@{fe}",
                                          f"{method} {target} via {fe} made {ev}({p!r}): the data root itself, not something "
                                          f"beneath it",
                                          {"level": "http", "frontend": fe, "prefix": prefix, "method": method,
                                           "target": target, "event": ev, "path": p,
                                           "headers": hdrs, "body": body.decode("latin-1")})
                        if not lexically_inside(ap, root):
                            chk.violation(f"C13:fs-access-outside-root:{method}@{fe}",
                                          f"{method} {target} via {fe} made {ev}({p!r}) outside the root {root}",
                                          {"level": "http", "frontend": fe, "prefix": prefix, "method": method,
                                           "target": target, "event": ev, "path": p,
                                           "headers": hdrs, "body": body.decode("latin-1")})
                after = {k: v for k, v in snapshot(scratch).items() if not k.startswith(root)}
                if after != before:
                    changed = sorted(set(after) ^ set(before)) or [k for k in after if after[k] != before.get(k)]
                    chk.violation(f"C13:siblings-of-root-changed@{fe}",
                                  f"directories next to the root changed: {changed[:5]}",
                                  {"level": "http", "frontend": fe, "prefix": prefix, "changed": changed[:20]})
            finally:
                srv.close()
                other.close()
                shutil.rmtree(scratch, ignore_errors=True)
            chk.traces_validated += 1


def relocated_root(chk):
    """The data directory is a copy of another one (a restored backup, a migration with `cp -a`): the server
    started on the copy must work on the copy — every file-system access of ordinary requests stays beneath
    the new root, and the original is left exactly as it was.  (Anything absolute that was recorded inside the
    collections when they were created would point at the original.)"""
    install_hook()
    for fe in ("wsgi", "aiohttp"):
        scratch = scratch_dir("xv-c13r-")
        a_root = os.path.join(scratch, "old-home", "data")
        b_root = os.path.join(scratch, "new-home", "data")
        srv = None
        try:
            srv = make_server(fe, a_root, prefix="/")
            P = "/user/calendars/"
            srv.request("MKCALENDAR", P + "work/", {}, b"")
            for i, t in enumerate([P + "calendar/a.ics", P + "calendar/b.ics", P + "work/w.ics"]):
                srv.request("PUT", t, {"Content-Type": "text/calendar"}, vevent("reloc-%d" % i))
            srv.request("PUT", "/user/contacts/addressbook/k.vcf", {"Content-Type": "text/vcard"}, vcard("K", uid="reloc-k"))
            srv.close()
            srv = None
            shutil.copytree(a_root, b_root, symlinks=True)
            before = snapshot(os.path.join(scratch, "old-home"))
            from xandikos.web import open_store_from_path
            from httpdrv import clear_store_cache
            clear_store_cache(open_store_from_path)
            srv = make_server(fe, b_root, prefix="/")
            reqs = [("PUT", P + "calendar/a.ics", {"Content-Type": "text/calendar"}, vevent("reloc-0", summary="changed")),
                    ("PUT", P + "calendar/new.ics", {"Content-Type": "text/calendar"}, vevent("reloc-new")),
                    ("DELETE", P + "calendar/b.ics", {}, b""), ("PROPPATCH", P + "work/", {"Content-Type": "text/xml"}, PROPPATCH),
                    ("PROPFIND", P + "work/", {"Depth": "1"}, b""), ("GET", P + "work/w.ics", {}, b""),
                    ("MKCALENDAR", P + "fresh/", {}, b""), ("PUT", P + "fresh/f.ics", {"Content-Type": "text/calendar"}, vevent("reloc-f")),
                    ("DELETE", P + "work/", {}, b""), ("DELETE", "/user/contacts/addressbook/", {}, b"")]
            for (m, t, h, b) in reqs:
                REC["events"] = []
                REC["on"] = True
                try:
                    resp = srv.request(m, t, h, b)
                finally:
                    REC["on"] = False
                chk.case(("relocated", fe, m, t), nontrivial=True)
                chk.count(f"relocated:{fe}:{m}:{resp.status}")
                import guard
                while guard.BLOCKED:
                    guard.BLOCKED.pop()
                for (ev, p, mode) in list(REC["events"]):
                    ap = os.path.abspath(p) if not os.path.isabs(p) else p
                    if ap.startswith(scratch) and not lexically_inside(ap, b_root):
                        chk.violation(f"C13:relocated-root:fs-access-outside-root:{m}@{fe}",
                                      f"server started on {b_root} (a copy of {a_root}): {m} {t} made {ev}({p!r})",
                                      {"level": "http", "frontend": fe, "scenario": "data directory copied, server started on the copy",
                                       "method": m, "target": t, "event": ev, "path": p})
            after = snapshot(os.path.join(scratch, "old-home"))
            if after != before:
                changed = sorted(set(after) ^ set(before)) or [k for k in after if after[k] != before.get(k)]
                chk.violation(f"C13:relocated-root:original-directory-changed@{fe}",
                              f"requests to the server on the copy changed the original data directory: {changed[:5]}",
                              {"level": "http", "frontend": fe, "scenario": "data directory copied, server started on the copy",
                               "changed": changed[:20]})
        finally:
            if srv is not None:
                srv.close()
            shutil.rmtree(scratch, ignore_errors=True)
        chk.traces_validated += 1


# ---------------------------------------------------------------------------
# function-level tie: real _map_to_file_path vs the Lean model, and the Lean `Confined` monitor

def map_grid(chk, n):
    from xandikos.web import XandikosBackend

    root = "/srv/dav"
    be = XandikosBackend(root)
    lines, cases = [], []
    alphabet = ["..", ".", "", "a", "b c", "%2e%2e", "ü", "....", "x.ics", ".git", "a/../..", "//",
                ".\x00.", "\x00..", ".\r.", ".\u200b.", "..\x00"]
    for i in range(n):
        k = chk.rng.randint(0, 6)
        rel = chk.rng.choice(["", "/", "//", "///", "./", "../"]) + "/".join(chk.rng.choice(alphabet) for _ in range(k))
        if chk.rng.random() < 0.2:
            rel += "/"
        try:
            real = be._map_to_file_path(rel)
        except Exception as e:
            real = None
        cases.append((rel, real))
        lines.append("mapfs %s %s" % (enc(root), enc(rel)))
        lines.append("confined %s %s" % (enc(root), enc(real if real is not None else root)))
    out = run_driver("pure", lines)
    for j, (rel, real) in enumerate(cases):
        model = out[2 * j].split(" ")[0]
        conf = out[2 * j + 1]
        chk.case(("map", rel), nontrivial=".." in rel)
        if real is None or enc(real) != model:
            chk.broke("correspondence _map_to_file_path",
                      f"_map_to_file_path({rel!r}) = {real!r}, model {urllib.parse.unquote(model[1:])!r}",
                      {"relpath": rel, "real": real})
        if real is not None and conf != "1":
            chk.violation("C13:map_to_file_path-leaves-root",
                          f"_map_to_file_path({rel!r}) = {real!r} is not confined to {root}",
                          {"level": "function", "relpath": rel, "real": real})
    chk.count("map_grid", len(cases))


def regen(chk):
    res = translate.generate()
    text, err = res["PathMap"]
    chk.extra["translation"] = {"_map_to_file_path": "ok" if text else "unavailable: " + err}
    if err:
        chk.notes.append("translation of _map_to_file_path unavailable (%s): tied by correspondence only" % err)
    else:
        transval.validate(chk, ["PathMap"])


def run(chk):
    chk.rule = ("(1) function level: random relpaths over a dot-segment/slash/percent alphabet through the real "
                "_map_to_file_path, the Lean model and the Lean `Confined` decision procedure; (2) server level: "
                "adversarial request targets (dot segments, %2e, %2f, //, mixed case escapes, overlong, decoy sibling "
                "names) for every method incl. hrefs inside multiget bodies, sent raw to a real aiohttp server and "
                "through the WSGI callable, with every Python-level file-system event audited (sys.addaudithook) and "
                "the directories next to the root snapshotted before/after; non-trivial = target contains a dot "
                "segment or an encoded dot/slash")
    chk.lean_obligations(MODULE, AUDIT, regen=regen)
    quick = chk.tier == "quick"
    map_grid(chk, 3000 if quick else 60000)
    server_audit(chk, 150 if quick else 2500)
    relocated_root(chk)
    chk.assumptions.append("lexical confinement: no symlinks inside the data root; kernel path resolution not modelled")
    chk.assumptions.append("file-system accesses made by C extensions without audit events are not seen")


def replay(chk, path):
    rep = json.load(open(path))
    r = rep.get("replay", rep)
    if r.get("level") == "function":
        from xandikos.web import XandikosBackend
        real = XandikosBackend("/srv/dav")._map_to_file_path(r["relpath"])
        out = run_driver("pure", ["confined %s %s" % (enc("/srv/dav"), enc(real))])[0]
        print("_map_to_file_path(%r) = %r confined=%s" % (r["relpath"], real, out))
        if out != "1":
            print(f"VIOLATION property=C13 replay={path}")
            return 1
        return 0
    install_hook()
    scratch = scratch_dir("xv-c13-")
    root = os.path.join(scratch, "data")
    srv = make_server(r["frontend"], root, prefix=r["prefix"])
    bad = []
    try:
        REC["events"] = []
        REC["on"] = True
        resp = srv.request(r["method"], r["target"], r.get("headers") or {}, (r.get("body") or "").encode("latin-1"))
        REC["on"] = False
        for (ev, p, mode) in REC["events"]:
            if p.startswith(scratch) and not lexically_inside(p, root):
                bad.append((ev, p))
        print(r["method"], r["target"], "->", resp.status, "outside-root events:", bad)
    finally:
        srv.close()
        shutil.rmtree(scratch, ignore_errors=True)
    if bad:
        print(f"VIOLATION property=C13 replay={path}")
        return 1
    print("replay: property held")
    return 0
