"""C10 — query results do not depend on the query history (index transparency)."""
import json
import os
import shutil
import xml.etree.ElementTree as ET

import compat  # noqa: F401
import dulwich.repo
from common import scratch_dir
from httpdrv import make_server, parse_multistatus
from checks.C11 import (CAL, NS, UTC, compf_json, compf_xml, gen_component, gen_filter, ical, query_xml,
                        run_json_driver, tree_of, tval)
import urllib.parse
import transval

AUDIT = "Audit/C10.lean"
MODULE = "Xandikos.Theorems.C10Ical"


def make_filter(cf):
    from xandikos import caldav
    from xandikos.icalendar import CalendarFilter
    el = ET.fromstring('<C:filter xmlns:C="%s">%s</C:filter>' % (NS, compf_xml(cf)))
    return caldav.parse_filter(el, CalendarFilter(UTC))


def make_store(kind, threshold, root):
    from xandikos.icalendar import ICalendarFile
    from xandikos.store.git import BareGitStore, TreeGitStore
    if kind == "bare-mem":
        s = BareGitStore(dulwich.repo.MemoryRepo(), index_threshold=threshold)
    else:
        import os
        p = os.path.join(root, "coll")
        TreeGitStore.create(p)
        s = TreeGitStore(dulwich.repo.Repo(p), index_threshold=threshold)
    s.load_extra_file_handler(ICalendarFile)
    return s


def features(cf, members):
    """What could make the two evaluators differ — names the clause for the signature."""
    feats = set()
    for name, data in members:
        t = tree_of(data)
        types = [s["name"] for s in t["subs"]]
        if len(types) != len(set(types)):
            feats.add("several-components-of-one-type")
        for s in t["subs"]:
            names = [p[0] for p in s["props"]]
            if len(names) != len(set(names)):
                feats.add("repeated-property")
        if b"TZID=" in data:
            feats.add("tzid-value")
        if b"VALUE=DATE" in data:
            pass

    def walk(c):
        for p in c.get("props", []):
            if p.get("params"):
                feats.add("param-filter")
        for s in c.get("comps", []):
            walk(s)
    walk(cf)
    return "+".join(sorted(feats)) or "plain"


def naive_answers(stored, filters):
    objs = [{"op": "reset"}] + [{"op": "cal", "name": n, "cal": tree_of(d)} for n, d in stored]
    objs += [{"op": "query", "filters": [compf_json(f)]} for f in filters]
    outs = run_json_driver("ical", objs)[len(stored) + 1:]
    return outs


def sub_filter(f, rng):
    """A filter whose index keys are a strict subset of `f`'s: one constraint of the innermost
    component filter that has several (a time-range counts as a prop-filter on DTSTART)."""
    import copy
    g = copy.deepcopy(f)
    node = g
    while node.get("comps") and not (node.get("props") or node.get("tr")):
        node = node["comps"][0]
    cands = [("p", i) for i in range(len(node.get("props", [])))]
    if node.get("tr"):
        cands.append(("t", 0))
    if len(cands) + len(node.get("comps", [])) < 2 and not node.get("tr"):
        return None
    which = rng.choice(cands)
    node.pop("comps", None)
    if which[0] == "t":
        node.pop("tr", None)
        node["props"] = [{"name": "DTSTART"}]
    else:
        node.pop("tr", None)
        node["props"] = [node["props"][which[1]]]
    return g


def store_histories(chk, n_hist, reps):
    for h in range(n_hist):
        kind = chk.rng.choice(["bare-mem", "tree"])
        threshold = chk.rng.choice([0, 1, 5, None])
        root = scratch_dir()
        try:
            store = make_store(kind, threshold, root)
            members = {}
            for i in range(chk.rng.randint(3, 6)):
                comps = [gen_component(chk.rng, i)]
                members["m%d.ics" % i] = ical(comps)
                store.import_one("m%d.ics" % i, "text/calendar", [members["m%d.ics" % i]])
            filters = [gen_filter(chk.rng) for _ in range(chk.rng.randint(2, 4))]
            filters = [f for f in filters if not f.get("nd")]
            steps = []
            schedule = []
            for f in filters:
                g = sub_filter(f, chk.rng) if chk.rng.random() < 0.5 else None
                if g is not None and not g.get("nd"):
                    # warm the index with part of the keys first: the full filter then finds some of
                    # its keys indexed and others not
                    schedule += [("q", g)] * reps
                    chk.count("partial_index_warmups")
                schedule += [("q", f)] * (reps if chk.rng.random() < 0.7 else 2)
            chk.rng.shuffle(schedule) if chk.rng.random() < 0.3 else None
            # writes in between
            for k in range(chk.rng.randint(1, 3)):
                pos = chk.rng.randrange(len(schedule) + 1)
                schedule.insert(pos, ("w", k))
            first = {}
            for step in schedule:
                if step[0] == "w":
                    i = chk.rng.randrange(0, 7)
                    name = "m%d.ics" % i
                    if name in members and chk.rng.random() < 0.3:
                        store.delete_one(name)
                        del members[name]
                        steps.append(["delete", name])
                    else:
                        data = ical([gen_component(chk.rng, i)])
                        try:
                            store.import_one(name, "text/calendar", [data])
                            members[name] = data
                            steps.append(["put", name])
                        except Exception as e:
                            steps.append(["put-refused", name, type(e).__name__])
                    first = {}
                    continue
                f = step[1]
                stored = sorted((n, b"".join(store.get_file(n).content)) for n in members)
                want = naive_answers(stored, [f])[0]
                try:
                    got = sorted(n for (n, _f, _e) in store.iter_with_filter(make_filter(f)))
                except Exception as e:
                    got = {"error": type(e).__name__}
                key = json.dumps(f, sort_keys=True)
                steps.append(["query", compf_xml(f), got])
                chk.count("store_queries")
                code = sorted(want["code"]) if isinstance(want["code"], list) else want["code"]
                if not want.get("sidecond", True):
                    continue
                bad = None
                if got != code:
                    bad = f"query answered {got}, evaluating the filter on the current contents gives {code}"
                elif key in first and first[key] != got:
                    bad = f"same query, no write in between: first {first[key]}, now {got}"
                first.setdefault(key, got)
                if bad:
                    sig = "C10:history-dependent-answer:" + features(f, stored) + \
                        (":error" if isinstance(got, dict) else "")
                    chk.violation(sig, bad, {"level": "store", "backend": kind, "threshold": threshold,
                                             "members": {n: d.decode("utf-8") for n, d in stored},
                                             "filter": compf_xml(f), "steps": steps[-12:]})
                    break
            chk.case(hash((kind, threshold, json.dumps(steps, sort_keys=True, default=str))),
                     nontrivial=sum(1 for s in steps if s[0] == "query") > (threshold or 5))
            if h < 2:
                chk.sample({"backend": kind, "threshold": threshold, "steps": steps[:6]})
            chk.traces_validated += 1
        finally:
            shutil.rmtree(root, ignore_errors=True)


PROBES = [
    ("KF-C10-multi-component",
     [("o.ics", ical([{"type": "VEVENT", "lines": ["UID:o", "SUMMARY:base", "DTSTART" + tval(0, "utc"), "RRULE:FREQ=DAILY;COUNT=2"]},
                      {"type": "VEVENT", "lines": ["UID:o", "SUMMARY:moved", "RECURRENCE-ID" + tval(2, "utc"),
                                                   "DTSTART" + tval(6, "utc")]}]))],
     {"name": "VCALENDAR", "comps": [{"name": "VEVENT", "tr": (5, 8)}]}),
    ("KF-C10-repeated-property",
     [("a.ics", ical([{"type": "VEVENT", "lines": ["UID:a", "SUMMARY:x", "DTSTART" + tval(0, "utc"),
                                                   "X-TAG:one", "X-TAG:two"]}]))],
     {"name": "VCALENDAR", "comps": [{"name": "VEVENT", "props": [{"name": "X-TAG", "tms": [{"text": "two"}]}]}]}),
    ("KF-C10-tzid",
     [("z.ics", ical([{"type": "VEVENT", "lines": ["UID:z", "SUMMARY:x",
                                                   "DTSTART;TZID=Asia/Tokyo:20200310T200000"]}]))],
     # 20:00 Tokyo = 11:00 UTC: inside 00:00-12:00 UTC; read as floating (20:00 UTC) it is outside
     {"name": "VCALENDAR", "comps": [{"name": "VEVENT", "tr": (0, 1)}]}),
    ("KF-C10-cross-instance",
     [("c.ics", ical([{"type": "VEVENT", "lines": ["UID:c", "SUMMARY:x", "DTSTART" + tval(0, "utc"),
                                                   "ATTENDEE;PARTSTAT=DECLINED:mailto:ann@example.com",
                                                   "ATTENDEE;PARTSTAT=ACCEPTED:mailto:bob@example.com"]}]))],
     {"name": "VCALENDAR", "comps": [{"name": "VEVENT", "props": [
         {"name": "ATTENDEE", "tms": [{"text": "mailto:ann@example.com"}],
          "params": [{"name": "PARTSTAT", "tms": [{"text": "ACCEPTED"}]}]}]}]}),
    ("KF-C10-param-filter",
     [("p.ics", ical([{"type": "VEVENT", "lines": ["UID:p", "SUMMARY:x", "DTSTART" + tval(0, "utc"),
                                                   "LOCATION;LANGUAGE=en:Room"]}]))],
     {"name": "VCALENDAR", "comps": [{"name": "VEVENT", "props": [{"name": "LOCATION", "params": [
         {"name": "LANGUAGE", "tms": [{"text": "en"}]}]}]}]}),
]


PROBES += [
    # zero / empty values are values: presence and is-not-defined must not change once indexed
    ("zero-valued-property",
     [("z0.ics", ical([{"type": "VTODO", "lines": ["UID:z0", "SUMMARY:x", "PRIORITY:0", "PERCENT-COMPLETE:0"]}])),
      ("z1.ics", ical([{"type": "VTODO", "lines": ["UID:z1", "SUMMARY:y"]}]))],
     {"name": "VCALENDAR", "comps": [{"name": "VTODO", "props": [{"name": "PRIORITY"}]}]}),
    ("zero-valued-property-not-defined",
     [("z0.ics", ical([{"type": "VTODO", "lines": ["UID:z0", "SUMMARY:x", "PRIORITY:0", "X-EMPTY:"]}])),
      ("z1.ics", ical([{"type": "VTODO", "lines": ["UID:z1", "SUMMARY:y"]}]))],
     {"name": "VCALENDAR", "comps": [{"name": "VTODO", "props": [{"name": "X-EMPTY", "nd": True}]}]}),
]
PROBES += [
    # text values that need escaping in the iCalendar form: the index keeps the escaped form
    ("escaped-text",
     [("e.ics", ical([{"type": "VEVENT", "lines": ["UID:e", "SUMMARY:Lunch\\, with Bob", "DTSTART" + tval(0, "utc")]}])),
      ("f.ics", ical([{"type": "VEVENT", "lines": ["UID:f", "SUMMARY:Lunch", "DTSTART" + tval(0, "utc")]}]))],
     {"name": "VCALENDAR", "comps": [{"name": "VEVENT", "props": [{"name": "SUMMARY", "tms": [{"text": "Lunch, with Bob"}]}]}]}),
    ("escaped-text-backslash",
     [("e.ics", ical([{"type": "VEVENT", "lines": ["UID:e", "DESCRIPTION:C:\\\\temp\\;x", "DTSTART" + tval(0, "utc")]}]))],
     {"name": "VCALENDAR", "comps": [{"name": "VEVENT", "props": [{"name": "DESCRIPTION", "tms": [{"text": "C:\\temp;x"}]}]}]}),
    ("escaped-category",
     [("c.ics", ical([{"type": "VEVENT", "lines": ["UID:c", "SUMMARY:x", "CATEGORIES:x\\,y,z", "DTSTART" + tval(0, "utc")]}]))],
     {"name": "VCALENDAR", "comps": [{"name": "VEVENT", "props": [{"name": "CATEGORIES", "tms": [{"text": "y"}]}]}]}),
    ("escaped-category-2",
     [("c.ics", ical([{"type": "VEVENT", "lines": ["UID:c", "SUMMARY:x", "CATEGORIES:x\\,y,z", "DTSTART" + tval(0, "utc")]}]))],
     {"name": "VCALENDAR", "comps": [{"name": "VEVENT", "props": [{"name": "CATEGORIES", "tms": [{"text": "x,y"}]}]}]}),
    # (a text with a backslash followed by N, or a bare CR, does not survive icalendar's own escaping — the
    # hypothesis `Clean` of Ical/EscapeProofs.lean; such a value never reaches the index through a request,
    # because members are stored re-serialised: the stored value is already the lossy one, on both paths)
    # a VFREEBUSY that gives its busy time as FREEBUSY periods only (no DTSTART/DTEND)
    ("bare-freebusy",
     [("fb.ics", ical([{"type": "VFREEBUSY", "lines": ["UID:fb", "FREEBUSY:%s/%s" % (tval(0, "utc")[1:], tval(1, "utc")[1:])]}])),
      ("fc.ics", ical([{"type": "VFREEBUSY", "lines": ["UID:fc", "FREEBUSY:%s/%s" % (tval(6, "utc")[1:], tval(7, "utc")[1:])]}]))],
     {"name": "VCALENDAR", "comps": [{"name": "VFREEBUSY", "tr": (0, 2)}]}),
]
# (probe, members, filter, default time zone of the query): a zone whose offset is zero on that day
TZ_PROBES = [
    ("tzid-at-offset-zero",
     [("l.ics", ical([{"type": "VEVENT", "lines": ["UID:l", "SUMMARY:x", "DTSTART;TZID=Europe/London:20200310T100000",
                                                   "DTEND;TZID=Europe/London:20200310T110000"]}])),
      ("p.ics", ical([{"type": "VEVENT", "lines": ["UID:p", "SUMMARY:x", "DTSTART;TZID=Europe/Paris:20200310T100000",
                                                   "DTEND;TZID=Europe/Paris:20200310T110000"]}]))],
     {"name": "VCALENDAR", "comps": [{"name": "VEVENT", "tr": (0, 1)}]}, "America/New_York"),
    ("tzid-at-offset-zero-2",
     [("l.ics", ical([{"type": "VEVENT", "lines": ["UID:l", "SUMMARY:x", "DTSTART;TZID=Europe/Lisbon:20200310T130000"]}]))],
     {"name": "VCALENDAR", "comps": [{"name": "VEVENT", "tr": (1, 2)}]}, "Asia/Tokyo"),
]


def probes(chk):
    """Deterministic replays of the recorded C10 findings (and of their repaired neighbours)."""
    from zoneinfo import ZoneInfo
    from xandikos import caldav
    from xandikos.icalendar import CalendarFilter
    for (kf, members, f, zone) in TZ_PROBES:
        root = scratch_dir()
        try:
            store = make_store("bare-mem", None, root)
            for n, d in members:
                store.import_one(n, "text/calendar", [d])
            el = ET.fromstring('<C:filter xmlns:C="%s">%s</C:filter>' % (NS, compf_xml(f)))
            answers = []
            for i in range(9):
                try:
                    flt = caldav.parse_filter(el, CalendarFilter(ZoneInfo(zone)))
                    answers.append(sorted(n for (n, _f, _e) in store.iter_with_filter(flt)))
                except Exception as e:
                    answers.append({"error": type(e).__name__})
            chk.case(("probe", kf))
            if any(a != answers[0] for a in answers):
                first_bad = next(i for i, a in enumerate(answers) if a != answers[0])
                chk.violation("C10:history-dependent-answer:" + kf,
                              f"{kf}: same query (default time zone {zone}) 9 times: {answers[0]} … from repetition {first_bad} on {answers[first_bad]}",
                              {"level": "store", "members": {n: d.decode() for n, d in members}, "filter": compf_xml(f),
                               "zone": zone, "answers": answers})
        finally:
            shutil.rmtree(root, ignore_errors=True)
    for (kf, members, f) in PROBES:
        root = scratch_dir()
        try:
            store = make_store("bare-mem", None, root)
            for n, d in members:
                store.import_one(n, "text/calendar", [d])
            stored = sorted((n, b"".join(store.get_file(n).content)) for n, _ in members)
            want = naive_answers(stored, [f])[0]
            code = sorted(want["code"]) if isinstance(want["code"], list) else want["code"]
            answers = []
            for i in range(9):
                try:
                    answers.append(sorted(n for (n, _f, _e) in store.iter_with_filter(make_filter(f))))
                except Exception as e:
                    answers.append({"error": type(e).__name__})
            chk.case(("probe", kf))
            if any(a != code for a in answers):
                first_bad = next(i for i, a in enumerate(answers) if a != code)
                chk.violation("C10:" + kf, f"{kf}: same query 9 times, answers {answers[0]} ... from repetition "
                              f"{first_bad} on {answers[first_bad]}; direct evaluation gives {code}",
                              {"level": "store", "members": {n: d.decode() for n, d in members},
                               "filter": compf_xml(f), "answers": answers})
        finally:
            shutil.rmtree(root, ignore_errors=True)


def index_model_tie(chk, n):
    """Tie of the index-side model (Ical/Index.lean) to the code: real index_keys / get_indexes /
    check_from_indexes / check against the model's, on generated calendars and filters inside and
    outside the class of `check_from_indexes_eq_check`; and, independently of the model, the real
    index path against the real direct path on every input of that class."""
    import idxtie
    stat, bad = idxtie.run_tie(n, chk.seed * 7919 + 17)
    for field in ("keys", "values", "idx", "naive"):
        for b in bad.get(field, [])[:3]:
            chk.broke("correspondence index-side model (%s)" % field,
                      "real %s = %r, model %r" % (field, b["real"], b["model"]), b)
    for b in bad.get("inside-class-divergence", []):
        chk.violation("C10:index-path-differs-from-direct-evaluation-on-the-proved-class",
                      "check_from_indexes = %r but check = %r on a calendar/filter of the class the theorem covers"
                      % (b["idx"], b["naive"]), dict(b, level="function"))
    for i in range(stat["inside-class"]):
        chk.case(("index-tie", "inside", i))
    for i in range(stat["outside-class"]):
        chk.case(("index-tie", "outside", i), nontrivial=False)
    chk.extra["index_model_tie"] = {k: stat[k] for k in sorted(stat)}
    chk.extra["index_model_tie"]["icalendar_round_trip"] = idxtie.RT


def escape_tie(chk, n):
    """Ical/Escape.lean against the code: icalendar's escaping (vText.to_ical) and xandikos'
    _unescape_text vs their models, and the statement of `unescape_escape` on the real functions"""
    import subprocess
    script = os.path.join(os.path.dirname(os.path.dirname(os.path.abspath(__file__))), "pylib", "pylib_escape.py")
    p = subprocess.run(["/venv/bin/python", script, str(n), str(chk.seed + 20260929)], capture_output=True, text=True,
                       timeout=1800)
    stat = {}
    for ln in p.stdout.splitlines():
        parts = ln.rsplit(None, 1)
        if len(parts) == 2 and parts[1].isdigit() and not ln.startswith("DISAGREE"):
            stat[parts[0].strip()] = int(parts[1])
    chk.extra["escape_model_tie"] = stat
    chk.evaluations += stat.get("strings", 0)
    if p.returncode != 0:
        dis = [ln for ln in p.stdout.splitlines() if ln.startswith("DISAGREE")]
        chk.broke("correspondence escape/unescape model", ("; ".join(dis[:3]) or (p.stdout + p.stderr)[-600:])[:1500])


def http_histories(chk, n_hist, reps):
    for h in range(n_hist):
        fe = "wsgi" if h % 2 == 0 else "aiohttp"
        threshold = chk.rng.choice([0, 1, None])
        scratch = scratch_dir()
        srv = make_server(fe, scratch + "/data", prefix="/", index_threshold=threshold)
        try:
            base = CAL + "/"
            names = []
            for i in range(4):
                d = ical([gen_component(chk.rng, i)])
                r = srv.request("PUT", base + "m%d.ics" % i, {"Content-Type": "text/calendar"}, d)
                if r.status in (201, 204):
                    names.append("m%d.ics" % i)
            filters = [f for f in (gen_filter(chk.rng) for _ in range(3)) if not f.get("nd")]
            for f in filters:
                stored = []
                for n in names:
                    g = srv.request("GET", base + n)
                    stored.append((n, g.body))
                want = naive_answers(sorted(stored), [f])[0]
                code = sorted(want["code"]) if isinstance(want["code"], list) else want["code"]
                if not want.get("sidecond", True):
                    continue
                for i in range(reps):
                    r = srv.request("REPORT", base, {"Depth": "1", "Content-Type": "text/xml"}, query_xml(f))
                    if r.status == 207 and parse_multistatus(r.body):
                        got = sorted(urllib.parse.unquote(it["href"]).rsplit("/", 1)[-1]
                                     for it in parse_multistatus(r.body)[0] if not it["href"].endswith("/"))
                    else:
                        got = {"error": "status %d" % r.status}
                    chk.count("http_queries")
                    if got != code:
                        chk.violation("C10:history-dependent-answer:" + features(f, stored) +
                                      (":error" if isinstance(got, dict) else ""),
                                      f"repetition {i} of {compf_xml(f)} answered {got}; the current contents give {code}",
                                      {"level": "http", "frontend": fe, "threshold": threshold,
                                       "members": {n: d.decode() for n, d in stored}, "request": query_xml(f).decode()})
                        break
            chk.case(("http", h), nontrivial=True)
            chk.traces_validated += 1
        finally:
            srv.close()
            shutil.rmtree(scratch, ignore_errors=True)


def run(chk):
    chk.rule = ("generated calendars and nested filters (the C11 generators); every filter is issued well past the "
                "indexing threshold (thresholds 0, 1, 5/default), different filters interleaved so that the index is "
                "reset and extended, writes and deletes in between, on bare-memory and tree stores through "
                "Store.iter_with_filter and through REPORT on both front ends; every answer must equal the direct "
                "evaluation of the filter on the current contents (Lean model of the naive path) and the first answer "
                "since the last write; deterministic probes replay the recorded findings; the index-side model of "
                "Ical/Index.lean (what check_from_indexes_eq_check is about) is compared with the real index_keys / "
                "get_indexes / check_from_indexes on generated inputs, and the two real paths with each other on the "
                "proved class. non-trivial = more queries than the threshold / an input of the proved class")
    chk.lean_obligations(MODULE, AUDIT, regen=lambda c: transval.regen(c, ["Unescape", "FindKeys"]))
    quick = chk.tier == "quick"
    probes(chk)
    index_model_tie(chk, 400 if quick else 6000)
    escape_tie(chk, 1500 if quick else 20000)
    store_histories(chk, 12 if quick else 150, 8)
    http_histories(chk, 2 if quick else 20, 8)


def replay(chk, path):
    rep = json.load(open(path))
    print(json.dumps(rep, indent=1)[:4000])
    return 0
