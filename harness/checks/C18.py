"""C18 — service discovery leads to the user's collections in every deployment layout."""
import configparser
import json
import os
import posixpath
import shutil
import urllib.parse

import compat  # noqa: F401
from bodies import AttrTable, Tokens, enc, vcard, vevent
from common import run_driver, scratch_dir
from httpfam import HttpImpl, compare_http, penc
from httpdrv import parse_multistatus
import transval

AUDIT = "Audit/C18.lean"
MODULE = "Xandikos.Theorems.C18Resolve"
DAV = "{DAV:}"
CALNS = "urn:ietf:params:xml:ns:caldav"
CARDNS = "urn:ietf:params:xml:ns:carddav"

FRONTENDS = ("wsgi", "wsgi-module", "aiohttp", "main")
ROUTE_PREFIXES = ("/", "/dav/", "/a/b/", "/dav", "/a/b")     # the last two: written without the trailing slash
PRINCIPALS = ("/user/", "/user", "/users/joe/", "/users/joe", "/org/unit/ann/", "/a b/é/", "/p#1/q?2/", "/x;w/y=z&1/")
# one entry per start of the server: D = --defaults, A = --autocreate only, N = neither flag
START_SEQUENCES = (("D",), ("D", "D"), ("D", "D", "D", "D"), ("A",), ("A", "A"), ("A", "D"), ("D", "A", "D"),
                   ("D", "N"), ("D", "A", "N", "D"), ("A", "N", "N"))
MODE = {"D": "1", "A": "0", "N": "n"}


def fs_colls(root):
    """what is on disk: repositories (path, type, metadata text) and plain directories"""
    colls, dirs = [], []
    for d, ds, fs in os.walk(root):
        if ".git" in ds:
            ds.remove(".git")
            rel = "/" + os.path.relpath(d, root).replace(os.sep, "/")
            cfg = os.path.join(d, ".xandikos")
            text, typ = None, "other"
            if os.path.isfile(cfg):
                text = open(cfg, "rb").read().decode("utf-8")
                cp = configparser.ConfigParser(interpolation=None)
                cp.read_string(text)
                typ = cp["DEFAULT"].get("type", "other")
            colls.append((rel, typ, text))
        elif d != root:
            dirs.append("/" + os.path.relpath(d, root).replace(os.sep, "/"))
    colls.sort()
    dirs.sort()
    return ("colls =" + ",".join(penc(p) + ":" + penc(t + ";" + ("~" if x is None else penc(x))) for p, t, x in colls)
            + " dirs =" + ",".join(penc(p) + ":" for p in dirs))


class Walk:
    """A client that follows only hrefs the server returned."""

    def __init__(self, chk, impl, cfg):
        self.chk, self.impl, self.srv, self.cfg = chk, impl, impl.srv, cfg
        self.base = impl.prefix.rstrip("/")
        self.predict = []
        self.notes = []

    def bad(self, sig, what):
        self.notes.append((sig, what))

    def propfind(self, target, props, depth="0"):
        body = ('<D:propfind xmlns:D="DAV:" xmlns:C="%s" xmlns:A="%s"><D:prop>%s</D:prop></D:propfind>'
                % (CALNS, CARDNS, "".join("<%s/>" % p for p in props)))
        r = self.srv.request("PROPFIND", target, {"Depth": depth, "Content-Type": "text/xml"}, body.encode())
        return r, (parse_multistatus(r.body) if r.status == 207 else None)

    def follow(self, request_target, href):
        u = urllib.parse.urlsplit(urllib.parse.urljoin("http://localhost" + request_target, href))
        if u.netloc != "localhost":
            return None
        return u.path

    def chain(self, start, principal_path, defaults_expected):
        """-> {"cal": [targets], "card": [targets]} or None; reports what breaks"""
        P = posixpath.normpath(principal_path)
        r, ms = self.propfind(start, ["D:current-user-principal"])
        if not ms:
            self.bad("C18:start-url-does-not-answer-propfind", f"PROPFIND {start} = {r.status}")
            return None
        v = ms[0][0]["props"].get(DAV + "current-user-principal")
        hs = [h.text for h in v[1].iter(DAV + "href")] if v and v[0] == "200" else []
        if not hs:
            self.bad("C18:no-current-user-principal", f"PROPFIND {start}: current-user-principal missing")
            return None
        self.predict.append(("cup %s %s" % (enc(self.script_name()), enc(self.cfg["principal"])), hs[0],
                             "current-user-principal at " + start))
        pt = self.follow(start, hs[0])
        if pt is None or urllib.parse.unquote(pt).rstrip("/") != self.base + P.rstrip("/"):
            self.bad("C18:current-user-principal-points-elsewhere",
                     f"current-user-principal {hs[0]!r} (from {start}) resolves to {pt!r}, principal is {self.base + P!r}")
            return None
        r, ms = self.propfind(pt, ["C:calendar-home-set", "A:addressbook-home-set", "D:principal-URL", "D:resourcetype"])
        if not ms:
            self.bad("C18:principal-does-not-resolve", f"PROPFIND {pt} = {r.status}")
            return None
        props = ms[0][0]["props"]
        rt = props.get(DAV + "resourcetype")
        if rt is None or rt[1].find(DAV + "principal") is None:
            self.bad("C18:principal-has-no-principal-resourcetype", f"{pt} is not a DAV:principal")
        pu = props.get(DAV + "principal-URL")
        if pu and pu[0] == "200":
            for h in pu[1].iter(DAV + "href"):
                t = self.follow(pt, h.text)
                if t is None or urllib.parse.unquote(t).rstrip("/") != self.base + P.rstrip("/"):
                    self.bad("C18:principal-URL-points-elsewhere", f"principal-URL {h.text!r} resolves to {t!r}")
        out = {}
        principal_href = urllib.parse.unquote(ms[0][0]["href"])
        for key, tag, rtag, home, dflt in (
                ("cal", "{%s}calendar-home-set" % CALNS, "{%s}calendar" % CALNS, "calendars", "calendar"),
                ("card", "{%s}addressbook-home-set" % CARDNS, "{%s}addressbook" % CARDNS, "contacts", "addressbook")):
            v = props.get(tag)
            hh = [h.text for h in v[1].iter(DAV + "href")] if v and v[0] == "200" else []
            if not hh:
                self.bad("C18:no-home-set:" + key, f"{tag} missing on {pt}")
                continue
            found = []
            for h in hh:
                self.predict.append(("homeset %s %s" % (enc(principal_href), enc(home)), h, key + " home set of " + pt))
                ht = self.follow(pt, h)
                want = self.base + P.rstrip("/") + "/" + home
                if ht is None or urllib.parse.unquote(ht).rstrip("/") != want:
                    self.bad("C18:home-set-points-elsewhere:" + key, f"{key} home set {h!r} resolves to {ht!r}, expected {want!r}")
                    continue
                r2, ms2 = self.propfind(ht, ["D:resourcetype"], "1")
                if not ms2:
                    self.bad("C18:home-set-does-not-resolve:" + key, f"PROPFIND {ht} = {r2.status}")
                    continue
                for it in ms2[0][1:]:
                    rtv = it["props"].get(DAV + "resourcetype")
                    if rtv and rtv[0] == "200" and rtv[1].find(rtag) is not None:
                        ct = self.follow(ht, it["href"])
                        r3, ms3 = self.propfind(ct, ["D:resourcetype"]) if ct else (None, None)
                        ok = bool(ms3) and ms3[0][0]["props"].get(DAV + "resourcetype")[1].find(rtag) is not None
                        if not ok:
                            self.bad("C18:listed-collection-does-not-resolve:" + key,
                                     f"{it['href']!r} listed in {ht} does not answer as a {key} collection")
                        else:
                            found.append(ct)
            out[key] = sorted(found)
            if defaults_expected:
                want = self.base + urllib.parse.quote(P.rstrip("/") + "/" + home + "/" + dflt) + "/"
                if want not in found:
                    self.bad("C18:default-collection-not-reached:" + key,
                             f"{key}: following the hrefs from {start} reaches {found}, not the default collection {want}")
        return out

    def script_name(self):
        # what environ["SCRIPT_NAME"] holds: the route prefix under aiohttp, the mount point under WSGI
        return self.impl.prefix if self.impl.frontend in ("aiohttp", "main") else self.base

    def wellknown(self):
        if self.impl.frontend == "wsgi":
            return self.impl.prefix     # the bare WSGI callable: no redirector in front of it
        start = None
        mounts = ("root", "alias", "exact") if hasattr(self.srv, "wellknown_mount") else (None,)
        for wk, mount in [(w, m) for w in ("/.well-known/caldav", "/.well-known/carddav") for m in mounts]:
            if mount is not None:
                self.srv.wellknown_mount = mount
            try:
                r = self.srv.request("GET", wk)
            finally:
                if mount is not None:
                    self.srv.wellknown_mount = "root"
            if mount not in (None, "root"):
                wk_label = f"{wk} (redirector mounted as {mount})"
            else:
                wk_label = wk
            loc = r.header("Location")
            if r.status not in (301, 302, 303, 307, 308) or not loc:
                self.bad("C18:well-known-does-not-redirect", f"GET {wk_label} = {r.status}")
                continue
            t = self.follow(wk, loc)
            if t is None or t.rstrip("/") != self.base:
                self.bad("C18:well-known-redirects-elsewhere", f"{wk} redirects to {loc!r}, the DAV root is {self.impl.prefix!r}")
            elif start is None:
                start = t           # the client goes on from where it was sent, exactly as written
        return start or self.impl.prefix


def snapshot(impl, targets):
    """what a client sees of its data: per collection the members with ETag and body, and displayname"""
    snap = {}
    for t in targets:
        r = impl.srv.request("PROPFIND", t, {"Depth": "1", "Content-Type": "text/xml"},
                             b'<D:propfind xmlns:D="DAV:"><D:prop><D:getetag/><D:displayname/><D:resourcetype/></D:prop></D:propfind>')
        ms = parse_multistatus(r.body) if r.status == 207 else None
        if not ms:
            snap[t] = ("unreachable", r.status)
            continue
        items = {}
        for it in ms[0]:
            e = it["props"].get(DAV + "getetag")
            dn = it["props"].get(DAV + "displayname")
            body = None
            if not it["href"].endswith("/"):
                g = impl.srv.request("GET", it["href"])
                body = g.body.decode("utf-8", "replace") if g.status == 200 else "GET %d" % g.status
            items[it["href"]] = (e[1].text if e and e[0] == "200" else None,
                                 dn[1].text if dn and dn[0] == "200" else None, body)
        snap[t] = items
    return snap


def run_config(chk, fe, prefix, principal, seq, toks):
    root = scratch_dir()
    data = root + "/data"
    cfg = {"frontend": fe, "prefix": prefix, "principal": principal, "starts": list(seq)}
    how = "module" if fe == "wsgi-module" else "simple"
    lines = ["hnew"]
    attrs = AttrTable(toks)
    notes = []
    impl = None
    try:
        impl = HttpImpl(fe, prefix, toks, root, principal=principal, defaults=(seq[0] == "D"), autocreate=True)
        lines.append("hboot %s %s %s" % (enc(principal), MODE[seq[0]], how))
        lines.append("COLLS | " + fs_colls(data))
        P = posixpath.normpath(principal)
        have_defaults = seq[0] == "D"
        snap = None
        targets = []
        walk = None
        for k, mode in enumerate(seq):
            if k > 0:
                # restart with this start's options
                impl.srv.kw["defaults"] = (mode == "D")
                impl.srv.kw["autocreate"] = (mode != "N")
                impl.srv.restart()
                lines.append("restart | restart")
                lines.append("hboot %s %s %s" % (enc(principal), MODE[mode], how))
                lines.append("COLLS | " + fs_colls(data))
                if mode == "D" and how == "simple":
                    have_defaults = True
            walk = Walk(chk, impl, cfg)
            start = walk.wellknown()
            found = walk.chain(start, principal, have_defaults)
            # from any other resource too (clients ask the URL they were configured with)
            if found and found.get("cal"):
                again = walk.chain(found["cal"][0], principal, have_defaults)
                if again != found:
                    walk.bad("C18:chain-depends-on-the-start-url", f"from {start}: {found}; from {found['cal'][0]}: {again}")
            notes.extend(walk.notes)
            if walk.predict:
                outs = run_driver("pure", [p[0] for p in walk.predict])
                bad = []
                for (line, obs, what), out in zip(walk.predict, outs):
                    model = urllib.parse.unquote(out.split(" ")[0][1:])
                    chk.count("href-model-compared")
                    if model != obs:
                        bad.append({"what": what, "model": model, "implementation": obs, "op": line})
                if bad:
                    chk.broke("correspondence discovery hrefs (Http/Discovery.lean) — " + fe, json.dumps(bad[:3], ensure_ascii=False),
                              dict(cfg, first=bad[0]))
            if snap is not None:
                now = snapshot(impl, targets)
                if now != snap:
                    diff = {t: (snap.get(t), now.get(t)) for t in targets if snap.get(t) != now.get(t)}
                    notes.append(("C18:restart-changed-user-data", "after start #%d (%s) the user's data differs: %s" % (
                        k + 1, mode, json.dumps(diff, ensure_ascii=False)[:1500])))
            if found is None:
                break
            # user data, written through the hrefs the server returned
            if k == 0:
                cal_home = impl.prefix.rstrip("/") + urllib.parse.quote(P.rstrip("/") + "/calendars/")
                r = impl.srv.request("MKCALENDAR", cal_home + "work%20%231/", {})
                lines.append("MKCALENDAR %s | %s" % (enc(P.rstrip("/") + "/calendars/work #1"),
                                                    "mkcol" if r.status == 201 else "other%d" % r.status))
                found2 = walk.chain(start, principal, have_defaults) or {}
                if cal_home + "work%20%231/" not in found2.get("cal", []):
                    notes.append(("C18:created-calendar-not-discovered", f"MKCALENDAR {cal_home}work%20%231/ = {r.status}, "
                                  f"discovery reaches {found2.get('cal')}"))
                targets = sorted(set(found2.get("cal", []) + found2.get("card", [])))
                n = 0
                for t in targets:
                    cpath = urllib.parse.unquote(t)[len(impl.prefix.rstrip("/")):].rstrip("/")
                    iscal = t in found2.get("cal", [])
                    for j in range(2):
                        n += 1
                        body = vevent("u%d" % n, summary="s%d" % n) if iscal else vcard("N%d" % n, uid="c%d" % n)
                        tok = toks.tok(body)
                        pre = []
                        attrs.ensure_all(tok, pre)
                        lines.extend(pre)
                        name = ("e%d.ics" if iscal else "c%d.vcf") % n
                        ct = "text/calendar" if iscal else "text/vcard"
                        lines.append("PUT %s ~ ~ %s %s | %s" % (enc(cpath + "/" + name), enc(ct), enc(tok),
                                                                 impl.put(cpath + "/" + name, ct, tok, None, None)))
                    r = impl.srv.request("PROPPATCH", t, {"Content-Type": "text/xml"},
                                         ('<D:propertyupdate xmlns:D="DAV:"><D:set><D:prop><D:displayname>mine %d'
                                          '</D:displayname></D:prop></D:set></D:propertyupdate>' % n).encode())
                    lines.append("SETPROP %s %s %s | %s" % (enc(cpath), enc("displayname"), enc("mine %d" % n),
                                                             "set" if r.status == 207 else "other%d" % r.status))
                    lines.append("LIST %s | %s" % (enc(cpath), impl.list(cpath)))
                lines.append("COLLS | " + fs_colls(data))
                snap = snapshot(impl, targets)
            else:
                for t in targets:
                    cpath = urllib.parse.unquote(t)[len(impl.prefix.rstrip("/")):].rstrip("/")
                    lines.append("LIST %s | %s" % (enc(cpath), impl.list(cpath)))
        notes.extend(("note", n_) for n_ in impl.notes if n_.startswith("C18:"))
    finally:
        if impl is not None:
            impl.close()
        shutil.rmtree(root, ignore_errors=True)
    return cfg, lines, notes


def run_preexisting(chk, fe, prefix, principal, seq):
    """A data directory that already holds the user's collections — the default calendar as a BARE
    repository (xandikos serves both layouts), the address book as a tree repository — is started
    with --defaults / --autocreate: nothing may be re-initialised, discovery reaches the members."""
    from xandikos.store.git import BareGitStore, TreeGitStore
    from xandikos.icalendar import ICalendarFile
    from xandikos.vcard import VCardFile
    root = scratch_dir()
    data = root + "/data"
    cfg = {"frontend": fe, "prefix": prefix, "principal": principal, "starts": list(seq), "preexisting": "bare default calendar"}
    notes = []
    impl = None
    try:
        P = posixpath.normpath(principal)
        # an earlier start with --autocreate made the principal and its home sets (repositories)
        first = HttpImpl(fe, prefix, Tokens(), root, principal=principal, defaults=False, autocreate=True)
        first.close()
        cal = BareGitStore.create(data + P + "/calendars/calendar")
        cal.load_extra_file_handler(ICalendarFile)
        cal.set_type("calendar")
        cal.set_displayname("kept")
        for i in range(3):
            cal.import_one("old%d.ics" % i, "text/calendar", [vevent("old-%d" % i, summary="old %d" % i)])
        book = TreeGitStore.create(data + P + "/contacts/addressbook")
        book.load_extra_file_handler(VCardFile)
        book.set_type("addressbook")
        book.import_one("friend.vcf", "text/vcard", [vcard("Friend", uid="f1")])
        want_cal = {n: e for n, _c, e in cal.iter_with_etag()}
        want_book = {n: e for n, _c, e in book.iter_with_etag()}
        del cal, book
        impl = HttpImpl(fe, prefix, Tokens(), root, principal=principal, defaults=(seq[0] == "D"), autocreate=(seq[0] != "N"))
        base = impl.prefix.rstrip("/")
        for k, mode in enumerate(seq):
            if k > 0:
                impl.srv.kw["defaults"] = (mode == "D")
                impl.srv.kw["autocreate"] = (mode != "N")
                impl.srv.restart()
            walk = Walk(chk, impl, cfg)
            found = walk.chain(walk.wellknown(), principal, True)
            notes.extend(walk.notes)
            for home, name, want in (("calendars", "calendar", want_cal), ("contacts", "addressbook", want_book)):
                t = base + urllib.parse.quote(P.rstrip("/") + "/" + home + "/" + name) + "/"
                snap = snapshot(impl, [t]).get(t)
                got = {urllib.parse.unquote(h).rsplit("/", 1)[-1]: (v[0] or "").strip('"')
                       for h, v in snap.items() if not h.endswith("/")} if isinstance(snap, dict) else snap
                if got != want:
                    notes.append(("C18:existing-collection-reinitialised-or-hidden",
                                  "start #%d (%s): %s holds %r, before the first start it held %r" % (k + 1, mode, t, got, want)))
                if isinstance(snap, dict) and name == "calendar":
                    dn = [v[1] for h, v in snap.items() if h.endswith("/")]
                    if dn and dn[0] != "kept":
                        notes.append(("C18:existing-collection-properties-lost", "displayname of %s is %r, was 'kept'" % (t, dn[0])))
    except RuntimeError as e:
        # the server under test did not come up (or died) on this data directory
        if "xandikos.web.main" not in str(e):
            raise
        notes.append(("C18:server-does-not-start-on-existing-data", str(e)[:400]))
    finally:
        if impl is not None:
            impl.close()
        shutil.rmtree(root, ignore_errors=True)
    return cfg, notes


def run(chk):
    chk.rule = ("deployments = front end (aiohttp as run_simple_server sets it up; xandikos.web.main() in a process of its own, "
                "killed for every restart; the WSGI callable; the xandikos/wsgi.py start-up wrapped in WellknownRedirector) x route prefix (/, /dav/, /a/b/) x principal path (with/without "
                "trailing slash, nested, with blanks/non-ASCII/#?;) x start sequences (--defaults / --autocreate / neither, 1-4 "
                "starts, switching mode); a client follows .well-known -> current-user-principal -> home sets -> Depth 1 "
                "using only returned hrefs; it then creates a calendar, writes members and a displayname through those "
                "hrefs; after every restart the chain, the listings, ETags, bodies and properties must be unchanged. "
                "The Lean model predicts the exact text of every discovery href and the exact set of repositories "
                "(with their metadata bytes) on disk after every start")
    chk.lean_obligations(MODULE, AUDIT, regen=lambda c: transval.regen(c, ["Wellknown", "Href"]))
    quick = chk.tier == "quick"
    toks = Tokens()
    combos = [(fe, pf, pr, sq) for fe in FRONTENDS for pf in ROUTE_PREFIXES for pr in PRINCIPALS for sq in START_SEQUENCES]
    chk.rng.shuffle(combos)
    if quick:
        # every front end x prefix, every principal form and every start sequence at least once
        picked, seen = [], set()
        for c in combos:
            keys = {("fp", c[0], c[1]), ("pr", c[2]), ("sq", c[3]), ("fpr", c[0], c[2])}
            if not keys <= seen:
                picked.append(c)
                seen |= keys
        combos = picked[:40]
        for extra in (("main", "/dav", "/user/", ("D", "D")), ("aiohttp", "/a/b", "/user", ("D",))):
            if extra not in combos:
                combos.append(extra)
    pre = [(fe, "/dav/" if i % 2 else "/", "/user/", sq) for i, fe in enumerate(FRONTENDS)
           for sq in ((("D", "D"),) if quick else (("D", "D"), ("A", "D"), ("D", "N", "D")))]
    for (fe, pf, pr, sq) in pre:
        cfg, notes = run_preexisting(chk, fe, pf, pr, sq)
        chk.count("preexisting-layout-configs")
        chk.case(("pre", fe, pf, pr, sq), nontrivial=True)
        seen = set()
        for sig, what in notes:
            if sig.startswith("C18:") and sig not in seen:
                seen.add(sig)
                chk.violation(sig + "@" + fe, what + f" ({json.dumps(cfg, ensure_ascii=False)})", {"level": "http", "config": cfg})
    for (fe, pf, pr, sq) in combos:
        cfg, lines, notes = run_config(chk, fe, pf, pr, sq, toks)
        dis, viol = compare_http(lines)
        chk.traces_validated += 1
        chk.count("starts", len(sq))
        chk.count("frontend:" + fe)
        chk.count("prefix:" + pf)
        chk.case((fe, pf, pr, sq), nontrivial=True)
        chk.sample(cfg, limit=4)
        seen = set()
        for sig, what in notes:
            if sig.startswith("C18:") and sig not in seen:
                seen.add(sig)
                chk.violation(sig + "@" + fe, what + f" ({json.dumps(cfg, ensure_ascii=False)})",
                              {"level": "http", "config": cfg, "lines": lines[-40:]})
        if dis:
            j, ln, model = dis[0]
            chk.broke(f"correspondence boot/http@{fe}", f"line {j}: impl `{ln[:1500]}` but model says `{model[:1500]}`",
                      {"config": cfg, "first": ln, "model": model})


def replay(chk, path):
    rep = json.load(open(path))
    print(json.dumps(rep, indent=1)[:6000])
    return 0
