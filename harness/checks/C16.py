"""C16 — listings are complete and every href the server emits resolves."""
import json
import posixpath
import shutil
import subprocess
import os
import unicodedata
import urllib.parse

import compat  # noqa: F401
from bodies import enc, vcard, vevent
from common import DRIVER, VERIF, run_driver, scratch_dir
from httpdrv import make_server, parse_multistatus
import transval

AUDIT = "Audit/C16.lean"
MODULE = "Xandikos.Theorems.C16Resolve"
DAV = "{DAV:}"

STEMS = ["plain", "a b", "50%", "a%20b", "a#b", "q?x", "s;t", "p+q", "a&b", "a:b", "x=y", "'q'", "a,b", "(p)", "~t", "a@b",
         "%41", "a%2Fb", "%", "a%zz", "zoë", unicodedata.normalize("NFD", "zoë"), "日本語", "emoji😀", "dot.dot",
         ".hidden", "trailing.", "q?x#y", "a:b:c", "http:x", "mailto:me", " lead", "CAPS", "tab\tin", "back\\slash",
         "quo\"te", "less<more>", "pipe|x", "{curly}", "^caret`"]

CAL = "/user/calendars/calendar"
BOOK = "/user/contacts/addressbook"
CALNS = "urn:ietf:params:xml:ns:caldav"
CARDNS = "urn:ietf:params:xml:ns:carddav"


def q(path):
    return urllib.parse.quote(path)


class Probe:
    def __init__(self, chk, fe, prefix):
        self.chk, self.fe, self.prefix = chk, fe, prefix if prefix.endswith("/") else prefix + "/"
        self.scratch = scratch_dir()
        self.srv = make_server(fe, self.scratch + "/data", prefix=self.prefix)
        self.base = self.prefix.rstrip("/")
        self.members = {}     # collection path -> {name: bytes as served}
        self.colls = {CAL: "calendar", BOOK: "addressbook"}
        self.hist = []
        self.predict = []     # (driver line, observed text, description)

    def close(self):
        self.srv.close()
        shutil.rmtree(self.scratch, ignore_errors=True)

    def viol(self, sig, what, extra=None):
        rep = {"level": "http", "frontend": self.fe, "prefix": self.prefix, "history": self.hist[-30:]}
        rep.update(extra or {})
        self.chk.violation(sig + "@" + self.fe, what + f" (front end {self.fe}, prefix {self.prefix})", rep)

    def target(self, path):
        return self.base + q(path)

    def put(self, cpath, name, data, ctype):
        r = self.srv.request("PUT", self.target(cpath + "/" + name), {"Content-Type": ctype}, data)
        self.hist.append(["PUT", cpath + "/" + name, r.status])
        if r.status in (201, 204):
            g = self.srv.request("GET", self.target(cpath + "/" + name))
            if g.status == 200:
                self.members.setdefault(cpath, {})[name] = g.body
            else:
                self.viol("C16:put-then-get-by-same-url-fails", f"PUT {name!r} = {r.status} but GET of the same URL = {g.status}")
        return r

    def resolve(self, href, request_target):
        """The request-target a client sends for `href` found in a response to `request_target`."""
        ref = urllib.parse.urljoin("http://localhost" + request_target, href)
        u = urllib.parse.urlsplit(ref)
        if u.netloc != "localhost":
            return None
        return u.path + ("?" + u.query if u.query else "")

    def deref_member(self, href, request_target, cpath, where):
        """GET the href as sent; returns the member name it addresses (by content) or None."""
        t = self.resolve(href, request_target)
        if t is None:
            self.viol("C16:href-leaves-the-server:" + where, f"href {href!r} resolves to another authority", {"href": href})
            return None
        g = self.srv.request("GET", t)
        if g.status != 200:
            self.viol("C16:member-href-does-not-resolve:" + where,
                      f"href {href!r} emitted for a member of {cpath} answers {g.status}", {"href": href})
            return None
        for n, body in self.members.get(cpath, {}).items():
            if body == g.body:
                return n
        self.viol("C16:member-href-addresses-other-content:" + where, f"href {href!r} serves unknown content", {"href": href})
        return None

    def deref_collection(self, href, request_target, where):
        t = self.resolve(href, request_target)
        if t is None:
            self.viol("C16:href-leaves-the-server:" + where, f"href {href!r} resolves to another authority", {"href": href})
            return None
        r = self.srv.request("PROPFIND", t, {"Depth": "0"})
        ms = parse_multistatus(r.body) if r.status == 207 else None
        if not ms or not ms[0]:
            self.viol("C16:collection-href-does-not-resolve:" + where, f"href {href!r} answers {r.status}", {"href": href})
            return None
        return urllib.parse.unquote(urllib.parse.urlsplit(ms[0][0]["href"]).path)

    def expect_href(self, cpath, name, observed, where):
        self.predict.append(("href %s %s %s" % (enc(self.prefix), enc(cpath), enc(name)), observed,
                             "%s href of %r in %s" % (where, name, cpath)))

    def check_model(self):
        """correspondence: the Lean href model predicts the exact text of every emitted href"""
        if not self.predict:
            return
        outs = run_driver("pure", [p[0] for p in self.predict])
        bad = []
        for (line, obs, what), out in zip(self.predict, outs):
            model = urllib.parse.unquote(out.split(" ")[0][1:])
            self.chk.count("href-model-compared")
            if model != obs:
                bad.append({"what": what, "model": model, "implementation": obs, "op": line})
        if bad:
            self.chk.broke("correspondence href model (Http/Href.lean) — " + self.fe,
                           json.dumps(bad[:4], ensure_ascii=False), bad[0])

    # -- the checks --------------------------------------------------------
    def check_listing(self, cpath):
        t = self.target(cpath + "/")
        for depth in ("0", "1"):
            r = self.srv.request("PROPFIND", t, {"Depth": depth})
            ms = parse_multistatus(r.body) if r.status == 207 else None
            if not ms:
                self.viol("C16:propfind-failed", f"PROPFIND Depth {depth} on {cpath} = {r.status}")
                return
            items = ms[0]
            self.chk.count("propfind-depth-" + depth)
            hrefs = [it["href"] for it in items]
            if depth == "0":
                if len(items) != 1:
                    self.viol("C16:depth0-not-exactly-self", f"Depth 0 on {cpath} returned {len(items)} responses: {hrefs}")
                continue
            if len(set(hrefs)) != len(hrefs):
                self.viol("C16:depth1-duplicate-href", f"Depth 1 on {cpath}: an href occurs twice: {hrefs}")
            self.expect_href(cpath, None, hrefs[0], "propfind-self")
            if not hrefs[0].endswith("/"):
                self.viol("C16:collection-href-without-slash", f"collection href {hrefs[0]!r} does not end in '/'")
            got_members, got_colls = [], []
            for it in items[1:]:
                rt = it["props"].get(DAV + "resourcetype")
                is_coll = rt is not None and rt[1].find(DAV + "collection") is not None
                if is_coll:
                    if not it["href"].endswith("/"):
                        self.viol("C16:collection-href-without-slash", f"collection href {it['href']!r} does not end in '/'")
                    p = self.deref_collection(it["href"], t, "propfind")
                    if p is not None:
                        got_colls.append(p.rstrip("/"))
                else:
                    n = self.deref_member(it["href"], t, cpath, "propfind")
                    if n is not None:
                        got_members.append(n)
                        self.expect_href(cpath, n, it["href"], "propfind")
            want = sorted(self.members.get(cpath, {}))
            if sorted(got_members) != want:
                self.viol("C16:depth1-members-differ", f"Depth 1 on {cpath} lists {sorted(got_members)!r}, members are {want!r}")
            want_colls = sorted(self.base + c for c in self.colls if posixpath.dirname(c) == cpath)
            if sorted(got_colls) != want_colls:
                self.viol("C16:depth1-subcollections-differ", f"Depth 1 on {cpath} lists collections {sorted(got_colls)!r}, expected {want_colls!r}")

    def check_reports(self, cpath, kind):
        t = self.target(cpath + "/")
        hdr = {"Depth": "1", "Content-Type": "text/xml"}
        ns, pre = (CALNS, "calendar") if kind == "calendar" else (CARDNS, "addressbook")
        flt = '<X:filter><X:comp-filter name="VCALENDAR"/></X:filter>' if kind == "calendar" else "<X:filter/>"
        bodies = {
            "query": '<X:%s-query xmlns:D="DAV:" xmlns:X="%s"><D:prop><D:getetag/></D:prop>%s</X:%s-query>' % (pre, ns, flt, pre),
            "sync": '<D:sync-collection xmlns:D="DAV:"><D:sync-token/><D:sync-level>1</D:sync-level><D:prop><D:getetag/></D:prop></D:sync-collection>',
        }
        for name, body in bodies.items():
            r = self.srv.request("REPORT", t, hdr, body.encode("utf-8"))
            ms = parse_multistatus(r.body) if r.status == 207 else None
            if not ms:
                self.viol("C16:report-failed:" + name, f"{name} report on {cpath} = {r.status}")
                continue
            got = []
            for it in ms[0]:
                if it["href"].endswith("/"):
                    continue
                n = self.deref_member(it["href"], t, cpath, name)
                if n is not None:
                    got.append(n)
                    self.expect_href(cpath, n, it["href"], name)
            want = sorted(self.members.get(cpath, {}))
            if kind == "calendar" and name == "query":
                continue  # a query lists matching members only; hrefs were dereferenced above
            if sorted(got) != want:
                self.viol("C16:report-members-differ:" + name, f"{name} on {cpath} lists {sorted(got)!r}, members are {want!r}")

    def check_post(self, cpath, data, ctype):
        t = self.target(cpath + "/")
        r = self.srv.request("POST", t, {"Content-Type": ctype}, data)
        self.hist.append(["POST", cpath, r.status, r.header("Location")])
        loc = r.header("Location")
        if r.status not in (200, 201) or not loc:
            self.viol("C16:post-add-member-failed", f"POST to {cpath} = {r.status}")
            return
        tt = self.resolve(loc, t)
        if tt is None:
            self.viol("C16:location-leaves-the-server", f"Location {loc!r} (POST to {t}) resolves to another authority",
                      {"location": loc})
            return
        g = self.srv.request("GET", tt)
        if g.status != 200:
            self.viol("C16:location-does-not-resolve", f"Location {loc!r} answers {g.status}", {"location": loc})
            return
        name = urllib.parse.unquote(tt.rsplit("/", 1)[-1])
        self.members.setdefault(cpath, {})[name] = g.body
        self.predict.append(("location %s %s %s" % (enc(self.prefix), enc(cpath), enc(name)), loc, "Location of POST to " + cpath))

    PROP_BODY = ('<D:propfind xmlns:D="DAV:" xmlns:C="urn:ietf:params:xml:ns:caldav" xmlns:A="urn:ietf:params:xml:ns:carddav">'
                 '<D:prop><D:current-user-principal/><D:principal-URL/><C:calendar-home-set/><A:addressbook-home-set/>'
                 '<C:schedule-inbox-URL/><D:add-member/><D:owner/><D:principal-collection-set/><C:calendar-user-address-set/>'
                 '<D:resourcetype/></D:prop></D:propfind>').encode()

    def check_property_hrefs(self, path, is_collection):
        """hrefs inside property values address the resource the property names"""
        t = self.target(path + ("/" if is_collection and not path.endswith("/") else ""))
        r = self.srv.request("PROPFIND", t, {"Depth": "0", "Content-Type": "text/xml"}, self.PROP_BODY)
        ms = parse_multistatus(r.body) if r.status == 207 else None
        if not ms or not ms[0]:
            self.viol("C16:propfind-failed", f"PROPFIND (properties) on {path} = {r.status}")
            return
        want = {
            DAV + "current-user-principal": ("principal", self.base + "/user"),
            DAV + "principal-URL": ("principal", self.base + "/user"),
            "{%s}calendar-home-set" % CALNS: ("collection", self.base + "/user/calendars"),
            "{%s}addressbook-home-set" % CARDNS: ("collection", self.base + "/user/contacts"),
            "{%s}schedule-inbox-URL" % CALNS: ("schedule-inbox", self.base + "/user/inbox"),
            DAV + "add-member": ("collection", (self.base + path).rstrip("/")),
        }
        for tag, (code, el) in ms[0][0]["props"].items():
            if code != "200" or tag == DAV + "resourcetype":
                continue
            for h in el.iter(DAV + "href"):
                href = h.text or ""
                u = urllib.parse.urlsplit(urllib.parse.urljoin("http://localhost" + t, href))
                if u.scheme not in ("http", "https") or u.netloc != "localhost":
                    self.chk.count("property-href-not-on-this-server")
                    continue
                self.chk.count("property-href:" + tag.split("}")[1])
                pr = self.srv.request("PROPFIND", u.path, {"Depth": "0"})
                pms = parse_multistatus(pr.body) if pr.status == 207 else None
                short = tag.split("}")[1]
                if not pms or not pms[0]:
                    self.viol("C16:property-href-does-not-resolve:" + short,
                              f"{short} of {path} is {href!r}, which answers {pr.status}", {"href": href})
                    continue
                exp = want.get(tag)
                if exp is None:
                    continue
                rt = pms[0][0]["props"].get(DAV + "resourcetype")
                kinds = [c.tag.split("}")[1] for c in rt[1]] if rt is not None else []
                got_path = urllib.parse.unquote(u.path).rstrip("/")
                if exp[0] not in kinds or posixpath.normpath(got_path or "/") != posixpath.normpath(exp[1] or "/"):
                    self.viol("C16:property-href-addresses-other-resource:" + short,
                              f"{short} of {path} is {href!r}: resolves to {got_path!r} of type {kinds}, "
                              f"expected {exp[1]!r} ({exp[0]})", {"href": href})

    def check_status_hrefs(self, cpath):
        """hrefs in PROPPATCH answers and in precondition errors address the request's resource."""
        t = self.target(cpath + "/")
        body = ('<D:propertyupdate xmlns:D="DAV:"><D:set><D:prop><D:displayname>n</D:displayname></D:prop></D:set>'
                '</D:propertyupdate>').encode()
        r = self.srv.request("PROPPATCH", t, {"Content-Type": "text/xml"}, body)
        ms = parse_multistatus(r.body) if r.status == 207 else None
        if ms and ms[0]:
            p = self.deref_collection(ms[0][0]["href"], t, "proppatch")
            if p is not None and p.rstrip("/") != (self.base + cpath):
                self.viol("C16:proppatch-href-addresses-other-resource", f"PROPPATCH on {cpath} answered with href for {p!r}")
        # a refused PUT (invalid body) reports the href of the request
        name = "bad name.ics"
        tt = self.target(cpath + "/" + name)
        r = self.srv.request("PUT", tt, {"Content-Type": "text/calendar"}, b"not a calendar")
        ms = parse_multistatus(r.body) if r.status == 207 else None
        if ms and ms[0]:
            href = ms[0][0]["href"]
            res = self.resolve(href, tt)
            if res is None or urllib.parse.unquote(res) != urllib.parse.unquote(tt):
                self.viol("C16:error-href-addresses-other-resource",
                          f"error response to PUT {tt} carries href {href!r}", {"href": href})


def run_layout(chk, fe, prefix, names):
    p = Probe(chk, fe, prefix)
    try:
        # extra collections, nested, with awkward names
        for path, method in (("/user/calendars/c é", "MKCALENDAR"), ("/user/extra 1", "MKCOL"),
                             ("/user/extra 1/in#ner", "MKCOL"),
                             # collections that are direct members of a calendar
                             ("/user/calendars/c é/archive 2023", "MKCOL"), ("/user/calendars/calendar/sub%41", "MKCALENDAR")):
            r = p.srv.request(method, p.target(path), {})
            p.hist.append([method, path, r.status])
            if r.status == 201:
                p.colls[path] = "calendar" if method == "MKCALENDAR" else "plain"
        i = 0
        for stem in names:
            i += 1
            for cpath, kind in list(p.colls.items()):
                if kind == "calendar":
                    p.put(cpath, stem + ".ics", vevent("uid-%d-%s" % (i, abs(hash(cpath)) % 997), summary="s%d" % i), "text/calendar")
                elif kind == "addressbook":
                    p.put(cpath, stem + ".vcf", vcard("N%d" % i, uid="c%d" % i), "text/vcard")
                elif kind == "plain" and i <= 3 and "in#ner" not in cpath:
                    # a plain collection holds calendar objects too (its type is then guessed)
                    p.put(cpath, stem + ".ics", vevent("uid-p%d-%s" % (i, abs(hash(cpath)) % 997), summary="p%d" % i), "text/calendar")
        for cpath, kind in p.colls.items():
            if kind in ("calendar", "addressbook"):
                p.check_post(cpath, vevent("posted-%s" % abs(hash(cpath))) if kind == "calendar" else vcard("Posted", uid="pp"),
                             "text/calendar" if kind == "calendar" else "text/vcard")
        for cpath, kind in p.colls.items():
            p.check_listing(cpath)
            if kind in ("calendar", "addressbook"):
                p.check_reports(cpath, kind)
            p.check_status_hrefs(cpath)
        p.check_property_hrefs("/", True)
        p.check_property_hrefs("/user", True)
        p.check_property_hrefs("/user", False)
        for cpath in list(p.colls):
            p.check_property_hrefs(cpath, True)
            for n in list(p.members.get(cpath, {}))[:2]:
                p.check_property_hrefs(cpath + "/" + n, False)
        for d in ("/user", "/user/calendars", "/user/contacts"):
            p.colls.setdefault(d, "dir")
        p.check_listing("/user/calendars")
        p.check_listing("/user/contacts")
        p.check_model()
        chk.case((fe, prefix, tuple(names)), nontrivial=True)
        chk.count("members", sum(len(v) for v in p.members.values()))
        chk.traces_validated += 1
        if len(chk.samples) < 3:
            chk.sample({"frontend": fe, "prefix": prefix, "names": names[:6], "collections": list(p.colls)})
    finally:
        p.close()


def url_differential(chk, quick):
    script = os.path.join(VERIF, "harness", "pylib", "pylib_url.py")
    env = dict(os.environ, VERIF_SEED=str(chk.seed), VERIF_CASES=str(20000 if quick else 130000))
    pr = subprocess.run(["/venv/bin/python", script, DRIVER + " pyurl"], capture_output=True, text=True, env=env, timeout=3600)
    try:
        res = json.loads(pr.stdout)
    except Exception:
        chk.broke("correspondence urllib model", (pr.stdout + pr.stderr)[-600:])
        return
    chk.extra["urllib_differential"] = {"cases": res.get("cases"), "disagreements": len(res.get("disagreements", []))}
    chk.evaluations += int(res.get("cases") or 0)
    if res.get("disagreements"):
        chk.broke("correspondence urllib model", json.dumps(res["disagreements"][:3])[:1500])


def run(chk):
    chk.rule = ("member names over a grammar of URL-significant and non-ASCII characters (space, %, #, ?, ;, +, &, :, =, "
                "quotes, NFC/NFD, CJK, emoji, literal %41 / %2F text, leading dot/space) stored in every collection of "
                "a layout built with MKCOL/MKCALENDAR (nested, awkward collection names), under route prefixes /, "
                "/dav/, /a/b/ through both front ends; PROPFIND Depth 0/1, calendar-/addressbook-query, sync-collection, "
                "POST Location, PROPPATCH and error responses: every href is dereferenced exactly as sent (RFC 3986 "
                "resolution against the request URL) and must serve the member it was emitted for; plus the urllib "
                "model against CPython")
    chk.lean_obligations(MODULE, AUDIT, regen=lambda c: transval.regen(c, ["Href"]))
    quick = chk.tier == "quick"
    url_differential(chk, quick)
    names = list(STEMS)
    chk.rng.shuffle(names)
    layouts = [("wsgi", "/"), ("aiohttp", "/"), ("wsgi", "/dav/"), ("aiohttp", "/a/b/")] if quick else \
        [(fe, pf) for fe in ("wsgi", "aiohttp") for pf in ("/", "/dav/", "/a/b/")]
    core = ["%41", "a%2Fb", "50%", "a%20b", "a#b", "q?x", "zoë", "a:b", "a b", "s;t"]   # in every layout
    per = 8 if quick else len(names)
    for k, (fe, pf) in enumerate(layouts):
        sub = names[(k * per) % len(names):][:per] or names[:per]
        if len(sub) < per:
            sub = sub + names[:per - len(sub)]
        run_layout(chk, fe, pf, core + [n for n in sub if n not in core])


def replay(chk, path):
    rep = json.load(open(path))
    print(json.dumps(rep, indent=1)[:4000])
    return 0
