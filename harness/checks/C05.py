"""C05 — concurrent writes behave as if executed one after another."""
import itertools
import json
import os
import shutil

import compat  # noqa: F401
from bodies import enc, git_blob_id, vevent
from common import run_driver, scratch_dir
import concdrv
import crashdrv

AUDIT = "Audit/C05.lean"
MODULE = "Xandikos.Theorems.C05Tree"

RES = {"InvalidETag": "invalidEtag", "DuplicateUidError": "dupUid", "NoSuchItem": "noSuchItem", "LockedError": "locked"}
# how many steps of the model an operation has completed when it stands at a yield point
# ("committed": tree store — the ref has moved but index.lock is held and the index, which is what other
# writers read, is not rewritten yet: for them the same as "commit"; bare store — the operation is complete)
STEPS_AT = {"tree": {"check": 1, "before-lock": 1, "locked": 2, "commit": 3, "committed": 3},
            "bare": {"check": 1, "tree-read": 2, "commit": 2}}


def body(uid, summary):
    return vevent(uid, summary=summary).decode("utf-8")


def tok_of(data):
    """the ETag the store gives this content (git blob id of the normalised bytes)"""
    from xandikos.icalendar import ICalendarFile
    f = ICalendarFile([data.encode("utf-8")], "text/calendar")
    return git_blob_id(b"".join(f.normalized()))


def scenarios(e0, quick):
    """pairs (label, opA, opB, uids) over the prior state {a.ics: e0 (uid ua), d.ics (uid ud)}"""
    P = lambda name, uid, summ, rep=None: ["put", name, "text/calendar", body(uid, summ), rep]
    stale = "0" * 40
    out = [
        ("two-conditional-updates-same-etag", P("a.ics", "ua", "A", e0), P("a.ics", "ua", "B", e0)),
        ("two-creates-different-names", P("b.ics", "ub", "b"), P("c.ics", "uc", "c")),
        ("two-creates-same-uid", P("b.ics", "dup", "b"), P("c.ics", "dup", "c")),
        ("conditional-delete-vs-conditional-update", ["del", "a.ics", e0], P("a.ics", "ua", "B", e0)),
        ("update-vs-create", P("a.ics", "ua", "A"), P("b.ics", "ub", "b")),
        ("create-vs-delete-other", P("b.ics", "ub", "b"), ["del", "d.ics", None]),
        ("two-unconditional-updates", P("a.ics", "ua", "A"), P("a.ics", "ua", "B")),
        ("conditional-update-vs-unconditional", P("a.ics", "ua", "A", e0), P("a.ics", "ua", "B")),
        ("stale-conditional-vs-create", P("a.ics", "ua", "A", stale), P("b.ics", "ub", "b")),
        ("create-vs-uid-of-existing", P("b.ics", "ud", "steals uid of d"), ["del", "d.ics", None]),
        ("delete-vs-delete", ["del", "a.ics", None], ["del", "a.ics", None]),
        ("create-same-name", P("b.ics", "ub", "one"), P("b.ics", "ub", "two")),
    ]
    return out[:6] if quick else out


def scenarios3(e0):
    """triples over the same prior state: three writers, one of them stopped half-way"""
    P = lambda name, uid, summ, rep=None: ["put", name, "text/calendar", body(uid, summ), rep]
    return [
        ("three-conditional-writers-same-etag", [P("a.ics", "ua", "A", e0), P("a.ics", "ua", "B", e0), ["del", "a.ics", e0]]),
        ("three-creates-one-uid", [P("b.ics", "dup", "b"), P("c.ics", "dup", "c"), P("e.ics", "dup", "e")]),
        ("update-create-delete", [P("a.ics", "ua", "A"), P("b.ics", "ub", "b"), ["del", "d.ics", None]]),
        ("create-steal-delete", [P("b.ics", "ud", "steals"), ["del", "d.ics", None], P("c.ics", "ud", "steals too")]),
    ]


def three_writers(chk, quick):
    """threads of one process, three operations: the first is stopped at each of its yield points while
    the two others are started; the outcome must be that of one of the six sequential orders, and the
    model, run in the order in which the operations completed, must give the same results and members"""
    for kind in ("tree", "bare"):
        root, path, pre = setup(kind)
        shutil.rmtree(root, ignore_errors=True)
        e0 = pre["a.ics"]
        for label, ops0 in scenarios3(e0)[:(2 if quick else 4)]:
            for rot in range(1 if quick else 3):
                ops = ops0[rot:] + ops0[:rot]
                root, path, _ = setup(kind)
                try:
                    w = concdrv.Worker(concdrv.open_store(kind, path), ops[0], None)
                    w.start()
                    w.done.wait(60)
                    pts = list(w.points)
                finally:
                    shutil.rmtree(root, ignore_errors=True)
                seq = None
                for i in ([None] if not pts else range(len(pts))):
                    root, path, pre = setup(kind)
                    try:
                        st = concdrv.open_store(kind, path)
                        r = concdrv.thread_schedule_n(st, ops, i)
                        final = concdrv.contents(concdrv.open_store(kind, path))
                    finally:
                        shutil.rmtree(root, ignore_errors=True)
                    res = [canon(x) for x in r["results"]]
                    point = pts[i] if i is not None else "none"
                    chk.count("schedules:threads-3:" + kind)
                    chk.case(("threads-3", kind, label, rot, i), nontrivial=True)
                    if seq is None:
                        seq = sequential_outcomes(kind, ops, (0, 1, 2))
                    ok = any(all(sres.get(j) == res[j] for j in (0, 1, 2)) and sfinal == final for (_o, sres, sfinal) in seq)
                    rep = {"level": "store", "mode": "threads", "backend": kind, "scenario": label, "ops": ops,
                           "A_paused_at": point, "results": res, "order_of_completion": r["order"], "final": final,
                           "prior": pre, "sequential_outcomes": [[list(o), sr, sf] for o, sr, sf in seq]}
                    if not ok:
                        chk.violation(f"C05:not-serialisable:threads:{kind}:three-writers",
                                      f"threads, {kind} store, {label}: first operation stopped at '{point}', the two others "
                                      f"started, then resumed: results {res}, members {sorted(final)} — none of the six "
                                      f"sequential orders gives this", rep)
                # ---- the model: threads of one process execute atomically, so its outcomes are the six
                # sequential ones; each must be what the real code gives when run in that order
                if seq is not None:
                    for (o, sres, sfinal) in seq:
                        lines = model_lines({"a.ics": "ua", "d.ics": "ud"}, pre, ops)
                        lines.append("qrun threads %s %s" % (kind, ",".join(map(str, o))))
                        out = run_driver("conc", lines)[-1]
                        want = "res=%s final==%s ser=1" % (
                            ";".join(sres[j] if not sres[j].startswith("failed") else "failed" for j in (0, 1, 2)),
                            ",".join("%s:%s" % (penc(n), penc(e)) for n, e in sorted(sfinal.items())))
                        chk.count("model-schedules-compared")
                        if out != want:
                            chk.broke(f"correspondence concurrency model (threads, {kind}, three writers)",
                                      f"{label}: order {list(o)}: the code gives `{want}`, the model `{out}`",
                                      {"level": "store", "mode": "threads", "backend": kind, "scenario": label, "ops": ops,
                                       "order": list(o)})
            chk.traces_validated += 1


def setup(kind):
    root = scratch_dir()
    path = os.path.join(root, "c")
    s = crashdrv.make_store(kind, path)
    s.import_one("a.ics", "text/calendar", [body("ua", "prior a").encode()])
    s.import_one("d.ics", "text/calendar", [body("ud", "prior d").encode()])
    pre = concdrv.contents(s)
    return root, path, pre


def canon(res):
    if res is None:
        return "running"
    if res[0] == "ok":
        return "ok"
    return RES.get(res[1], "failed:" + str(res[1]))


def sequential_outcomes(kind, ops, live):
    """the real code, one operation after another, for every order of the operations in `live`"""
    outs = []
    for order in itertools.permutations(live):
        root, path, _ = setup(kind)
        try:
            s = concdrv.open_store(kind, path)
            res = {}
            for i in order:
                res[i] = canon(concdrv.run_op(s, ops[i]))
            outs.append((order, res, concdrv.contents(concdrv.open_store(kind, path))))
        finally:
            shutil.rmtree(root, ignore_errors=True)
    return outs


def model_lines(pre_uids, pre, ops):
    lines = ["qnew"]
    for n, e in sorted(pre.items()):
        lines.append("qmember %s %s %s" % (enc(n), enc(e), enc(pre_uids.get(n))))
    for op in ops:
        if op[0] == "put":
            uid = op[3].split("UID:")[1].split("\r\n")[0] if "UID:" in op[3] else None
            lines.append("qop put %s %s %s %s" % (enc(op[1]), enc(tok_of(op[3])), enc(uid), enc(op[4])))
        else:
            lines.append("qop del %s %s" % (enc(op[1]), enc(op[2])))
    return lines


def run(chk):
    chk.rule = ("pairs of store operations (conditional/unconditional updates, creates with new, equal and stolen UIDs, "
                "conditional/unconditional deletes) on tree-git and bare-git stores; the code is stopped at every point "
                "where another writer can get in between (after the uid/etag check, with index.lock held, with the "
                "current tree read, before the commit) and the other operation is run there: all single-pre-emption "
                "schedules, in two deployments — threads of one process sharing the store object, and separate "
                "processes on one directory; the outcome (result of each operation, final members) must be that of "
                "some sequential execution, computed by running the real code sequentially in every order; the Lean "
                "model must predict the same results, members and verdict for every schedule")
    chk.lean_obligations(MODULE, AUDIT)
    quick = chk.tier == "quick"
    concdrv.install()
    for kind in ("tree", "bare"):
        root, path, pre = setup(kind)
        shutil.rmtree(root, ignore_errors=True)
        e0 = pre["a.ics"]
        for label, opa, opb in scenarios(e0, quick):
            for (first, second, swapped) in (((opa, opb, False), (opb, opa, True)) if not quick else ((opa, opb, False),)):
                ops = [first, second]
                # A's yield points
                root, path, _ = setup(kind)
                try:
                    w = concdrv.Worker(concdrv.open_store(kind, path), ops[0], None)
                    w.start()
                    w.done.wait(60)
                    pts = list(w.points)
                finally:
                    shutil.rmtree(root, ignore_errors=True)
                seq_cache = {}
                for mode in ("threads", "processes"):
                    for i in ([None] if not pts else range(len(pts))):
                        root, path, pre = setup(kind)
                        try:
                            if mode == "threads":
                                st = concdrv.open_store(kind, path)
                                r = concdrv.thread_schedule(st, st, ops[0], ops[1], i)
                            else:
                                r = concdrv.process_schedule(kind, path, ops[0], ops[1], i)
                            final = concdrv.contents(concdrv.open_store(kind, path))
                        finally:
                            shutil.rmtree(root, ignore_errors=True)
                        res = [canon(x) for x in r["results"]]
                        point = pts[i] if i is not None else "none"
                        chk.count("schedules:" + mode + ":" + kind)
                        chk.case((mode, kind, label, swapped, i), nontrivial=True)
                        # ---- the property: some sequential execution gives this outcome
                        live = tuple(j for j in (0, 1) if res[j] != "locked")
                        if live not in seq_cache:
                            seq_cache[live] = sequential_outcomes(kind, ops, live)
                        ok = any(all(sres.get(j) == res[j] for j in live) and sfinal == final
                                 for (_o, sres, sfinal) in seq_cache[live])
                        rep = {"level": "store", "mode": mode, "backend": kind, "scenario": label, "ops": ops,
                               "A_paused_at": point, "A_yield_points": pts, "results": res, "order_of_completion": r["order"],
                               "final": final, "prior": pre,
                               "sequential_outcomes": [[list(o), sr, sf] for o, sr, sf in seq_cache[live]]}
                        if not ok:
                            why = "stale-check" if STEPS_AT[kind].get(point, 0) == 1 else "stale-tree"
                            chk.violation(f"C05:not-serialisable:{mode}:{kind}:{why}",
                                          f"{mode}, {kind} store, {label}: A stopped at '{point}', B ran, A resumed: results {res}, "
                                          f"members {sorted(final)} — no sequential order of the operations gives this", rep)
                        if any(x.startswith("failed") or x == "running" for x in res):
                            chk.count("operation-raised-other-exception")
                        # ---- the model on the same schedule
                        pre_uids = {"a.ics": "ua", "d.ics": "ud"}
                        lines = model_lines(pre_uids, pre, ops)
                        if mode == "threads":
                            sched = [0, 1] if r["order"][0] == "A" else [1, 0]
                        else:
                            k = STEPS_AT[kind].get(point, 4)
                            sched = [0] * k + [1] * 4 + [0] * 4
                        lines.append("qrun %s %s %s" % (mode, kind, ",".join(map(str, sched))))
                        out = run_driver("conc", lines)[-1]
                        want = "res=%s final==%s ser=%s" % (
                            ";".join(x if not x.startswith("failed") else "failed" for x in res),
                            ",".join("%s:%s" % (penc(n), penc(e)) for n, e in sorted(final.items())), "1" if ok else "0")
                        chk.count("model-schedules-compared")
                        if out != want:
                            chk.broke(f"correspondence concurrency model ({mode}, {kind})",
                                      f"{label}: A stopped at '{point}': the code gives `{want}`, the model `{out}`", rep)
                chk.traces_validated += 1
    three_writers(chk, quick)
    http_threads(chk, quick)
    chk.assumptions.append("pre-emption is explored at the yield points between the phases of an operation; inside one "
                           "phase (a dulwich call, a file rename) operations are taken as atomic; two operations per "
                           "schedule with one pre-emption (threads and processes), three operations with the first "
                           "pre-empted (threads)")


def http_pairs(e0_quoted):
    """pairs of HTTP requests (method, path, headers, body) on the default calendar"""
    P = "/user/calendars/calendar/"
    ct = {"Content-Type": "text/calendar"}
    put = lambda name, uid, summ, extra=None: ("PUT", P + name, dict(ct, **(extra or {})), body(uid, summ).encode())
    return [
        ("http-two-updates-if-match-same-etag", put("a.ics", "ua", "A", {"If-Match": e0_quoted}),
         put("a.ics", "ua", "B", {"If-Match": e0_quoted})),
        ("http-two-updates-same-uid-different-names", put("x.ics", "dup", "x"), put("y.ics", "dup", "y")),
        ("http-update-vs-delete-if-match", put("a.ics", "ua", "A", {"If-Match": e0_quoted}),
         ("DELETE", P + "a.ics", {"If-Match": e0_quoted}, b"")),
        ("http-two-creates", put("x.ics", "ux", "x"), put("y.ics", "uy", "y")),
    ]


def http_mids():
    """requests that have nothing to do with the two writers (another collection, read-only requests):
    sent, and answered, while the first writer is stopped and before the second one is sent"""
    H = "/user/calendars/"
    xml = {"Content-Type": "text/xml"}
    return [
        ("none", []),
        ("delete-of-another-collection", [("DELETE", H + "old/", {}, b"")]),
        ("mkcalendar-and-listing", [("MKCALENDAR", H + "fresh/", {}, b""),
                                    ("PROPFIND", H, dict(xml, Depth="1"), b'<D:propfind xmlns:D="DAV:"><D:allprop/></D:propfind>')]),
        ("proppatch-of-another-collection", [("PROPPATCH", H + "old/", xml,
                                              b'<D:propertyupdate xmlns:D="DAV:"><D:set><D:prop><D:displayname>n</D:displayname>'
                                              b'</D:prop></D:set></D:propertyupdate>')]),
    ]


def http_state(srv):
    from httpdrv import parse_multistatus
    r = srv.request("PROPFIND", "/user/calendars/calendar/", {"Depth": "1", "Content-Type": "text/xml"},
                    b'<D:propfind xmlns:D="DAV:"><D:prop><D:getetag/></D:prop></D:propfind>')
    ms = parse_multistatus(r.body) if r.status == 207 else None
    out = {}
    if ms:
        for it in ms[0]:
            if not it["href"].endswith("/"):
                e = it["props"].get("{DAV:}getetag")
                out[it["href"].rsplit("/", 1)[-1]] = e[1].text if e else None
    return out


def http_class(status):
    return "ok" if status in (200, 201, 204) else "refused"


def http_threads(chk, quick):
    """the same question through the server: two requests in flight, the first one's worker thread
    (web.py runs store updates with asyncio.to_thread) stopped at each yield point"""
    import threading
    from httpdrv import make_server
    for fe in ("aiohttp", "wsgi"):
        def fresh():
            root = scratch_dir()
            srv = make_server(fe, root + "/data", prefix="/")
            srv.request("MKCALENDAR", "/user/calendars/old/", {}, b"")
            srv.request("PUT", "/user/calendars/old/o.ics", {"Content-Type": "text/calendar"}, body("uo", "o").encode())
            r = srv.request("PUT", "/user/calendars/calendar/a.ics", {"Content-Type": "text/calendar"},
                            body("ua", "prior a").encode())
            return root, srv, r.header("ETag")
        root, srv, e0 = fresh()
        srv.close()
        shutil.rmtree(root, ignore_errors=True)
        pairs = http_pairs(e0)[: (2 if quick else 4)]
        mids = http_mids()
        # quick: every pair without interposed requests, the first pair with each kind of them
        combos = [(p, m) for p in pairs for m in mids] if not quick else \
            [(p, mids[0]) for p in pairs] + [(pairs[0], m) for m in mids[1:]]
        for (label0, ra, rb), (mlabel, mid) in combos:
            label = label0 if not mid else label0 + "+" + mlabel
            # sequential outcomes, both orders (the interposed requests first: they are independent of A and B)
            seq = []
            for order in ((ra, rb), (rb, ra)):
                root, srv, _ = fresh()
                try:
                    for rq in mid:
                        srv.request(*rq)
                    st = [http_class(srv.request(*rq).status) for rq in order]
                    seq.append((st if order[0] is ra else st[::-1], http_state(srv)))
                finally:
                    srv.close()
                    shutil.rmtree(root, ignore_errors=True)
            # A's yield points
            root, srv, _ = fresh()
            try:
                probe = concdrv.PauseFirst(None)
                concdrv.GLOBAL_CTL[0] = probe
                srv.request(*ra)
                npts = probe.count
            finally:
                concdrv.GLOBAL_CTL[0] = None
                srv.close()
                shutil.rmtree(root, ignore_errors=True)
            for i in range(npts):
                root, srv, _ = fresh()
                try:
                    ctl = concdrv.PauseFirst(i, limit=8.0)
                    concdrv.GLOBAL_CTL[0] = ctl
                    res = {}
                    ta = threading.Thread(target=lambda: res.__setitem__("A", srv.request(*ra).status), daemon=True)
                    ta.start()
                    ctl.paused.wait(10)
                    for rq in mid:
                        tm = threading.Thread(target=lambda rq=rq: srv.request(*rq), daemon=True)
                        tm.start()
                        tm.join(3.0)
                    tb = threading.Thread(target=lambda: res.__setitem__("B", srv.request(*rb).status), daemon=True)
                    tb.start()
                    tb.join(0.4)
                    ctl.go.set()
                    ta.join(30)
                    tb.join(30)
                    concdrv.GLOBAL_CTL[0] = None
                    got = ([http_class(res.get("A", 0)), http_class(res.get("B", 0))], http_state(srv))
                finally:
                    concdrv.GLOBAL_CTL[0] = None
                    srv.close()
                    shutil.rmtree(root, ignore_errors=True)
                chk.count("http-schedules:" + fe)
                chk.case(("http", fe, label, i), nontrivial=True)
                if not any(got == s for s in seq):
                    chk.violation(f"C05:not-serialisable:http-threads:{fe}",
                                  f"{fe}: {label}: request A's worker stopped at yield point {i} ({ctl.points[-1] if ctl.points else '?'}), "
                                  f"{'then ' + mlabel + ', ' if mid else ''}"
                                  f"request B sent, A released: answers {got[0]}, members {got[1]} — neither sequential order gives this "
                                  f"(A;B: {seq[0]}, B;A: {seq[1]})",
                                  {"level": "http", "frontend": fe, "scenario": label, "A": [ra[0], ra[1], ra[2]],
                                   "B": [rb[0], rb[1], rb[2]], "interposed": [[m[0], m[1]] for m in mid],
                                   "paused_at": i, "statuses": [res.get("A"), res.get("B")],
                                   "members": got[1], "sequential": [[s[0], s[1]] for s in seq]})


def penc(s):
    import urllib.parse
    return urllib.parse.quote(s, safe="").replace("~", "%7E")


def replay(chk, path):
    rep = json.load(open(path))
    print(json.dumps(rep, indent=1)[:6000])
    return 0
