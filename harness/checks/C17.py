"""C17 — multiget returns, for each requested href, the current resource or 404."""
import json
import urllib.parse

import compat  # noqa: F401
from bodies import AttrTable, Tokens, gen_ical, gen_vcard, INVALID_ICAL, UIDS
from httpfam import BOOK, CAL, compare_http, execute_http
import transval

AUDIT = "Audit/C17.lean"
MODULE = "Xandikos.Theorems.C17Compose"
PREFIXES = ("C17:",)

CAL2 = "/user/calendars/second"
CAL3 = "/user/calendars/a"          # with the route prefix /a/b/, "/a/b" occurs again inside the path of a/b.ics
# member names: URL-significant characters, a name that is a prefix of another up to '#'/'?',
# a card inside a calendar collection, no extension
CAL_NAMES = ["a.ics", "a#b.ics", "a", "q?x.ics", "q", "50%.ics", "sp ace.ics", "zoë.ics", "%41.ics", "A.ics",
             "c.vcf", "semi;x.ics", "plus+.ics", "david.ics", "dav", "x=y&z.ics", "(p)!.ics", ".draft.ics"]
BOOK_NAMES = ["k.vcf", "k#1.vcf", "e.ics", "ü.vcf", ".k.vcf"]


def gen_template(rng, toks, length):
    uids = list(UIDS)
    rng.shuffle(uids)
    icals = [toks.tok(gen_ical(rng, uid=uids[i % len(uids)] + str(i))) for i in range(10)]
    cards = [toks.tok(gen_vcard(rng)) for _ in range(4)]
    cal_paths = [CAL + "/" + n for n in CAL_NAMES] + [CAL2 + "/" + n for n in ("a.ics", "z.ics")] + \
        [CAL3 + "/" + n for n in ("b.ics", "b")]
    book_paths = [BOOK + "/" + n for n in BOOK_NAMES]
    paths = cal_paths + book_paths
    ops = [("MKCALENDAR", CAL2), ("MKCALENDAR", CAL3)]

    def sel():
        r = rng.random()
        p = rng.choice(paths)
        if r < 0.05:
            return ("echo",)
        if r < 0.06:
            return ("member", rng.choice([CAL + "/.draft.ics", BOOK + "/.k.vcf"]))
        if r < 0.34:
            return ("member", p)
        if r < 0.38:
            return ("variant", p)
        if r < 0.44:
            return ("rawdelims", rng.choice([CAL + "/" + n for n in ("semi;x.ics", "plus+.ics", "x=y&z.ics", "(p)!.ics")]
                                            + [CAL + "/a.ics;v2", CAL + "/semi;"]))
        if r < 0.51:
            return ("abs", p, rng.choice(["", ":80", ":8080"]))
        if r < 0.54:
            return ("otherhost", p)
        if r < 0.60:
            return ("dots", p)
        if r < 0.65:
            return ("query", p, rng.choice(["?x=1", "#frag", "?a#b"]))
        if r < 0.72:
            return ("outside", rng.choice(["/elsewhere/a.ics", "/user", "a.ics", "user/calendars/calendar/a.ics",
                                           "../a.ics", "/davuser/calendars/calendar/a.ics", "/a/bx/user/calendars/calendar/a.ics",
                                           "mailto:a@example.com", "/%2e%2e/a.ics", "//host/user/calendars/calendar/a.ics"]))
        if r < 0.80:
            return ("lookalike", p)
        if r < 0.83:
            return ("empty",)
        if r < 0.88:
            return ("git", rng.choice([CAL + "/.git/HEAD", CAL + "/.git/config", BOOK + "/.git/index", CAL + "/.git"]))
        if r < 0.91:
            return ("member", rng.choice([CAL, BOOK]) + "/.xandikos")
        return ("coll", rng.choice([CAL, CAL + "/", BOOK + "/", "/user/", "/user/calendars", "/", ""]))

    def put(p):
        cal = p in cal_paths
        if p.endswith(".vcf"):
            tok, ct = rng.choice(cards), "text/vcard"
        elif p.endswith(".ics"):
            tok, ct = icals[len(ops) % len(icals)], "text/calendar"
        else:
            tok, ct = (icals[len(ops) % len(icals)], "text/calendar") if cal else (rng.choice(cards), "text/vcard")
        ops.append(("PUT", p, ct, tok, "none", "none"))

    for p in paths:
        if rng.random() < 0.7 or p in (CAL + "/david.ics", CAL3 + "/b.ics", CAL + "/a.ics", CAL + "/semi;x.ics",
                                      CAL + "/.draft.ics", BOOK + "/.k.vcf"):
            put(p)
    for _ in range(length):
        r = rng.random()
        if r < 0.30:
            put(rng.choice(paths))
            continue
        if r < 0.0:
            p = rng.choice(paths)
            cal = p in cal_paths
            if p.endswith(".vcf"):
                tok, ct = rng.choice(cards), "text/vcard"
            elif p.endswith(".ics"):
                tok, ct = rng.choice(icals), "text/calendar"
            else:
                tok, ct = (rng.choice(icals), "text/calendar") if cal else (rng.choice(cards), "text/vcard")
            ops.append(("PUT", p, ct, tok, "none", "none"))
        elif r < 0.42:
            ops.append(("DELETE", rng.choice(paths), "none"))
        elif r < 0.46:
            ops.append(("restart",))
        else:
            n = rng.choice([1, 2, 3, 5, 8])
            sels = [sel() for _ in range(n)]
            if rng.random() < 0.5 and sels:
                sels.append(rng.choice(sels))           # a duplicate
                if rng.random() < 0.5:
                    sels.insert(0, sels[-1])
            kind = "calendar" if rng.random() < 0.7 else "addressbook"
            ops.append(("MULTIGET", rng.choice([CAL, CAL2]) if kind == "calendar" else BOOK, kind, sels))
    return ops, paths


def run_histories(chk, n, length):
    toks = Tokens()
    for i in range(n):
        tmpl, paths = gen_template(chk.rng, toks, length)
        for fe in ("wsgi", "aiohttp"):
            prefix = chk.rng.choice(["/", "/dav/", "/a/b/"])
            lines, notes = execute_http(fe, prefix, tmpl, toks, AttrTable(toks), [], colls=(CAL, BOOK))
            dis, viol = compare_http(lines)
            chk.traces_validated += 1
            nmg = 0
            for ln in lines:
                if ln.startswith("MULTIGET "):
                    nmg += 1
                    obs = ln.split(" | ", 1)[1]
                    for item in obs[len("mg ="):].split(","):
                        if item:
                            a = item.split(":", 1)[1]
                            chk.count("answer:" + ("404" if a == "404" else
                                                    "200+data" if not a.endswith(";~") else
                                                    "200-no-data"))
            chk.count("multiget_requests", nmg)
            chk.count("http_lines", len(lines))
            for op in tmpl:
                if op[0] == "MULTIGET":
                    for s in op[3]:
                        chk.count("href:" + s[0])
            chk.case(hash((fe, prefix, tuple(lines))), nontrivial=nmg >= 2)
            if i == 0:
                chk.sample({"frontend": fe, "prefix": prefix, "lines": [ln for ln in lines if ln.startswith("MULTIGET")][:3]})
            hist = lambda j: [l for l in lines[:j + 1] if l.split(" ", 1)[0] in
                              ("PUT", "DELETE", "MKCALENDAR", "restart", "MULTIGET")][-25:]
            seen = set()
            for note in notes:
                if note.startswith(PREFIXES):
                    sig = note.split(" ")[0] + "@" + fe
                    if sig in seen:
                        continue
                    seen.add(sig)
                    chk.violation(sig, note + f" (front end {fe}, prefix {prefix})",
                                  {"level": "http", "frontend": fe, "prefix": prefix, "history": hist(len(lines))})
            for (j, ln, verdict) in viol:
                if verdict.startswith(PREFIXES):
                    sig = verdict.split(" ")[0] + "@" + fe
                    if sig not in seen:
                        seen.add(sig)
                        chk.violation(sig, f"{verdict} via {fe} prefix {prefix}",
                                      {"level": "http", "frontend": fe, "prefix": prefix, "line": ln, "history": hist(j)})
            if dis:
                j, ln, model = dis[0]
                chk.broke(f"correspondence http@{fe}", f"line {j}: impl `{ln}` but model says `{model}`",
                          {"frontend": fe, "prefix": prefix, "first": ln, "model": model, "history": hist(j)})


def bare_collection(chk):
    """a calendar that is a bare repository (xandikos serves both layouts): multiget against GET"""
    import os
    import shutil
    from common import scratch_dir
    from httpfam import HttpImpl
    from bodies import vevent
    from xandikos.store.git import BareGitStore
    for fe in ("wsgi", "aiohttp"):
        root = scratch_dir()
        impl = None
        try:
            impl = HttpImpl(fe, "/dav/" if fe == "wsgi" else "/", Tokens(), root)
            impl.close()
            st = BareGitStore.create(os.path.join(root, "data", "user", "calendars", "team"))
            st.set_type("calendar")
            del st
            impl = HttpImpl(fe, "/dav/" if fe == "wsgi" else "/", Tokens(), root)
            team = "/user/calendars/team"
            base = impl.prefix.rstrip("/")
            for i, n in enumerate(["a.ics", "b c.ics", "x#y.ics"]):
                impl.srv.request("PUT", base + urllib.parse.quote(team + "/" + n), {"Content-Type": "text/calendar"},
                                 vevent("team-%d" % i, summary="tab\there %d" % i))
            sels = [("member", team + "/a.ics"), ("member", team + "/b c.ics"), ("member", team + "/x#y.ics"),
                    ("member", team + "/gone.ics"), ("member", CAL + "/a.ics"), ("coll", team)]
            impl.multiget(team, "calendar", sels)
            impl.srv.request("DELETE", base + urllib.parse.quote(team + "/a.ics"), {})
            impl.srv.request("PUT", base + urllib.parse.quote(team + "/b c.ics"), {"Content-Type": "text/calendar"},
                             vevent("team-1", summary="changed"))
            impl.multiget(team, "calendar", sels)
            impl.multiget(CAL, "calendar", sels)
            chk.case(("bare-collection", fe), nontrivial=True)
            seen = set()
            for note in impl.notes:
                if note.startswith(PREFIXES) and note.split(" ")[0] not in seen:
                    seen.add(note.split(" ")[0])
                    chk.violation(note.split(" ")[0] + ":bare-collection@" + fe, note + f" (bare-repository collection, front end {fe})",
                                  {"level": "http", "frontend": fe, "collection": "bare repository " + team})
        finally:
            if impl is not None:
                impl.close()
            shutil.rmtree(root, ignore_errors=True)


def run(chk):
    chk.rule = ("write histories (PUT/DELETE/restart, members whose names contain #, ?, %, space, non-ASCII, a card in "
                "a calendar, a name without extension) interleaved with calendar-/addressbook-multiget requests whose "
                "hrefs are drawn from: existing and deleted members (also of other collections), percent-encoded "
                "variants, absolute URLs (with port, other host), dot segments, query/fragment suffixes, hrefs outside "
                "the route prefix and look-alikes of it, relative references, empty elements, .git paths, the "
                "metadata file, collections; duplicates added. Judged three ways: by construction against GET of the "
                "canonical URL, each href re-asked alone (independence), and by the Lean model + monitor on the same "
                "lines; both front ends, prefixes /, /dav/, /a/b/")
    chk.lean_obligations(MODULE, AUDIT, regen=lambda c: transval.regen(c, ["Href", "Multiget"]))
    quick = chk.tier == "quick"
    run_histories(chk, 6 if quick else 80, 30 if quick else 50)
    bare_collection(chk)


def replay(chk, path):
    rep = json.load(open(path))
    print(json.dumps(rep, indent=1)[:6000])
    return 0
