"""C04 — a crash during a write leaves the old or the new state, never anything else."""
import json
import os
import shutil

import compat  # noqa: F401
from bodies import enc, vcard, vevent
from common import run_driver, scratch_dir
import crashdrv

AUDIT = "Audit/C04.lean"
MODULE = "Xandikos.Theorems.C04"

KINDS = ("tree", "bare", "vdir")
PROPS = ("displayname", "description", "color", "comment")


def classify(kind, ev, target):
    """file-system event -> the micro-step of the model it completes (None: no model step)"""
    what, path = ev[0], ev[1]
    rel = path.split("/", 1)[1] if "/" in path else path          # below the store directory
    if kind == "vdir":
        if what == "open" and rel.endswith(".tmp"):
            return "tmpOpen"
        if what == "open":
            return "openInPlace"
        if what == "rename":
            return "renameTmp"
        if what == "remove":
            return "unlink"
        return None
    g = ".git/" if kind == "tree" else ""
    if what == "open" and rel == g + "index.lock":
        return "lockIndex"
    if what == "open" and not rel.startswith(".git/") and kind == "tree":
        return "wtOpen"
    if what == "remove" and not rel.startswith(".git/") and kind == "tree":
        return "wtUnlink"
    if what == "rename" and rel.startswith(g + "objects/") and rel.endswith(".lock"):
        return "addObj" if "/pack/" not in rel else "addPackIdx"
    if what == "rename" and rel.startswith(g + "objects/pack/tmp"):
        return "addPack"
    if what == "open" and rel.startswith(g + "refs/heads/") and rel.endswith(".lock"):
        return "lockRef"
    if what == "open" and rel.startswith(g + "logs/"):
        return "reflog"
    if what == "rename" and rel.startswith(g + "refs/heads/"):
        return "setHead"
    if what == "rename" and rel == g + "index.lock":
        return "setIndex"
    return None


def files_of(kind, s, path):
    """every file the store keeps (members and metadata), name -> sha1 of its bytes"""
    import hashlib
    out = {}
    if kind == "vdir":
        for n in os.listdir(path):
            f = os.path.join(path, n)
            if os.path.isfile(f) and not n.endswith(".tmp"):
                out[n] = hashlib.sha1(open(f, "rb").read()).hexdigest()
        return out
    for name, mode, sha in s._iterblobs():
        out[name] = hashlib.sha1(b"".join(s._get_raw(name, sha.decode() if isinstance(sha, bytes) else sha))).hexdigest()
    try:
        out[".xandikos"] = hashlib.sha1(b"".join(s._get_raw(".xandikos"))).hexdigest()
    except KeyError:
        pass
    return out


OPEN_STEPS = ("wtOpen", "tmpOpen", "openInPlace")


def penc(s):
    import urllib.parse
    return urllib.parse.quote(s, safe="").replace("~", "%7E")


def trees_of(kind, path):
    """the tree objects the object store holds (names -> sha1 of the member bytes)"""
    import hashlib
    if kind == "vdir":
        return []
    import dulwich.repo
    repo = dulwich.repo.Repo(path)
    out = []
    for sha in repo.object_store:
        o = repo.object_store[sha]
        if o.type_name == b"tree":
            out.append({e.path.decode("utf-8"): hashlib.sha1(repo.object_store[e.sha].data).hexdigest() for e in o.items()})
    repo.close()
    return out


def correspond(chk, kind, scen, events, states, audits, pre_files, post_files, target, pre_trees=()):
    """the Lean micro-step model against the recorded events and the audited crash states"""
    changed = [n for n in set(pre_files) | set(post_files) if pre_files.get(n) != post_files.get(n)]
    if len(changed) > 1:
        chk.broke("correspondence crash model: one operation changed several files", f"{kind} {scen}: {changed}")
        return
    if changed:
        n = changed[0]
        op = ("put", n, post_files[n]) if n in post_files else ("del", n)
    else:
        if target is None or target not in pre_files:
            return
        op = ("put", target, pre_files[target])
    pairs = lambda d: "=" + ",".join("%s:%s" % (penc(n), penc(t)) for n, t in sorted(d.items()))
    cls = [classify(kind, e, target) for e in events]
    lines = ["cnew " + kind, "cstate " + pairs(pre_files)]
    lines += ["cobj tree " + pairs(t) for t in pre_trees]
    # `add_objects` does not write a pack whose content is on disk already
    lines.append("cskip %d" % (1 if kind == "bare" and "addPack" not in cls else 0))
    opl = ("put %s %s" % (enc(op[1]), enc(op[2]))) if op[0] == "put" else ("del %s" % enc(op[1]))
    lines.append("cplan " + opl)
    # model index of every crash state
    js = []
    for st in states:
        k = st["k"]
        j = 0
        for i, c in enumerate(cls[:k]):
            if c is None:
                continue
            j += 1
            if c in OPEN_STEPS:
                cut_here = st["variant"].startswith("cut:") and i == k - 1
                if not cut_here:
                    j += 1          # the write completed before the next event
        js.append(j)
        lines.append("ccrash %s %d" % (opl, j))
    outs = run_driver("crash", lines)
    base = 3 + len(pre_trees)
    model_plan = [x for x in outs[base].split(",") if x and x not in ("wtWrite", "tmpWrite", "writeInPlace")]
    real_plan = [c for c in cls if c is not None]
    ctx = {"backend": kind, "scenario": scen, "events": [list(e) for e in events], "op": list(op)}
    if model_plan != real_plan:
        chk.broke(f"correspondence crash plan ({kind}, {scen['op']})",
                  f"the code performed {real_plan}, the model's plan is {model_plan}", ctx)
        return
    pre, post = view_of(audits[0]), view_of(audits[len(events)])
    for st, a, j, out in zip(states, audits, js, outs[base + 1:]):
        v = view_of(a)
        if v is None:
            got = "other"
        elif v == pre and v == post:
            got = "same"
        elif v == pre:
            got = "old"
        elif v == post:
            got = "new"
        else:
            got = "other"
        got += " nd=" + ("0" if a.get("dangling") else "1")
        chk.count("model-verdicts-compared")
        if got != out:
            chk.broke(f"correspondence crash state ({kind}, {scen['op']})",
                      f"after {st['k']} events {st['variant']} (model step {j}) the directory reads as `{got}`, the model says `{out}`",
                      dict(ctx, crash_after=st["k"], variant=st["variant"]))
            return


def view_of(a):
    """(members, props) as a newly started server reads them; None if it cannot"""
    if not a.get("opens") or a.get("error"):
        return None
    return ({n: (m.get("sha1"), m.get("valid"), m.get("error")) for n, m in a["members"].items()}, dict(a["props"]))


def judge(chk, kind, scen, events, states, audits, target, prop):
    """the property, on every crash state"""
    pre, post = view_of(audits[0]), view_of(audits[len(events)])
    ctx = {"level": "store", "backend": kind, "scenario": scen, "events": [list(e) for e in events]}
    if pre is None or post is None:
        chk.violation("C04:store-does-not-open-after-a-completed-operation:" + kind,
                      f"{kind}: {scen}: before/after the operation the store does not open: {audits[0].get('error')} / {audits[len(events)].get('error')}", ctx)
        return
    for st, a in zip(states, audits):
        where = f"{kind}: {scen['op']} crash after {st['k']} of {len(events)} file-system events" + \
            (f" ({st['variant']})" if st["variant"] else "") + \
            (f", next event {list(events[st['k']])}" if st["k"] < len(events) else "")
        c = dict(ctx, crash_after=st["k"], variant=st["variant"], seen=a)
        v = view_of(a)
        if v is None:
            chk.violation(f"C04:collection-does-not-open:{kind}:{scen['op']}", where + ": " + str(a.get("error")), c)
            continue
        members, props = v
        for n, m in members.items():
            if m[2] is not None or not m[1]:
                chk.violation(f"C04:member-does-not-read-back:{kind}:{scen['op']}", where + f": member {n!r}: {m}", c)
        names = set(members) | set(pre[0]) | set(post[0])
        for n in names:
            got, old, new = members.get(n), pre[0].get(n), post[0].get(n)
            if n != target:
                if got != old:
                    chk.violation(f"C04:other-member-changed:{kind}:{scen['op']}",
                                  where + f": member {n!r} is {got}, was {old}", c)
            elif got != old and got != new:
                chk.violation(f"C04:interrupted-member-neither-old-nor-new:{kind}:{scen['op']}",
                              where + f": member {n!r} is {got}, old {old}, new {new}", c)
        for p, val in props.items():
            if p == "type" and not scen.get("typed"):
                continue        # not recorded: guessed from the members' content types
            if val != pre[1].get(p) and val != post[1].get(p):
                chk.violation(f"C04:property-neither-old-nor-new:{kind}:{scen['op']}:{p}",
                              where + f": {p} reads {val!r}, old {pre[1].get(p)!r}, new {post[1].get(p)!r}", c)
            elif p != prop and val != pre[1].get(p):
                chk.violation(f"C04:other-property-changed:{kind}:{scen['op']}:{p}",
                              where + f": {p} reads {val!r}, was {pre[1].get(p)!r}", c)
        if kind != "vdir" and "ctag" in a:
            # what reads back is the old or the new state; the collection tag (= sync-token) a client is
            # given must name that same state, or its next sync reports changes that did not happen
            pre_c, post_c = audits[0].get("ctag"), audits[len(events)].get("ctag")
            if (v == pre and a["ctag"] != pre_c and not (v == post and a["ctag"] == post_c)) or \
                    (v == post and v != pre and a["ctag"] != post_c):
                chk.violation(f"C04:collection-tag-names-another-state-than-the-one-that-reads-back:{kind}:{scen['op']}",
                              where + f": members/properties read back as {'before' if v == pre else 'after'} the "
                              f"operation, the tag is {a['ctag']} (before: {pre_c}, after: {post_c})", c)
        if a.get("dangling"):
            chk.violation(f"C04:reference-to-a-missing-object:{kind}:{scen['op']}", where + f": {a['dangling'][:3]}", c)
        if a.get("stale"):
            chk.count("states-with-stale-lock-or-tmp")
        chk.count("crash-states:" + kind)


def scenarios(rng, quick):
    out = []
    for nprior in ((0, 2) if quick else (0, 1, 3, 5)):
        for op in ("create", "replace", "delete", "same", "setprop:displayname", "setprop:description",
                   "setprop:color", "setprop:comment", "create-card"):
            if op in ("replace", "delete", "same") and nprior == 0:
                continue
            out.append({"prior": nprior, "op": op, "withprops": rng.random() < 0.6})
    # collections that keep their properties in the repository's git configuration ([xandikos] section, as
    # older releases wrote them): the property writes go through another code path (judged on the real crash
    # states only — the micro-step model has no plan for the git-config back end)
    for op in ("setprop:displayname", "setprop:description", "setprop:color", "setprop:comment"):
        out.append({"prior": 1, "op": op, "withprops": False, "gitconfig": True})
    return out


def run_one(chk, kind, scen):
    scratch = scratch_dir()
    try:
        path = os.path.join(scratch, "root", "c")
        os.makedirs(os.path.dirname(path))
        s = crashdrv.make_store(kind, path)
        for i in range(scen["prior"]):
            s.import_one("m%d.ics" % i, "text/calendar", [vevent("prior-%d" % i, summary="prior %d" % i)])
        if scen.get("gitconfig"):
            if kind not in ("tree", "bare"):
                return
            from xandikos.store.git import RepoCollectionMetadata
            md = RepoCollectionMetadata(s.repo)
            md.set_displayname("Old name")
            md.set_description("Old description")
            md.set_color("#112233")
            s = crashdrv.reopen(kind, path)
        if scen["withprops"]:
            for p, v in (("displayname", "Old name"), ("description", "Old description"), ("color", "#112233")):
                try:
                    getattr(s, "set_" + p)(v)
                except NotImplementedError:
                    pass
            try:
                s.set_type("calendar")
                scen = dict(scen, typed=True)
            except Exception:
                pass
        op = scen["op"]
        target, prop = None, None
        if op == "create":
            target = "new.ics"
            fn = lambda: s.import_one(target, "text/calendar", [vevent("new-uid", summary="brand new")])
        elif op == "create-card":
            target = "new.vcf"
            fn = lambda: s.import_one(target, "text/vcard", [vcard("New Person", uid="card-1")])
        elif op == "replace":
            target = "m0.ics"
            fn = lambda: s.import_one(target, "text/calendar", [vevent("prior-0", summary="changed " + "x" * 300)])
        elif op == "same":
            target = "m0.ics"
            cur = b"".join(s.get_file(target, "text/calendar").content)
            fn = lambda: s.import_one(target, "text/calendar", [cur])
        elif op == "delete":
            target = "m%d.ics" % (scen["prior"] - 1)
            fn = lambda: s.delete_one(target)
        else:
            prop = op.split(":")[1]
            val = {"displayname": "New name", "description": "New description, longer than the old one " * 3,
                   "color": "#aabbcc", "comment": "a comment"}[prop]
            fn = lambda: getattr(s, "set_" + prop)(val)
        pre_files = files_of(kind, s, path)
        pre_trees = trees_of(kind, path)
        events, err, states = crashdrv.crash_states(kind, os.path.join(scratch, "snaps"), path, fn)
        if isinstance(err, NotImplementedError):
            chk.count("not-implemented:" + kind + ":" + op)
            return
        if err is not None:
            raise err
        states.sort(key=lambda st: (st["k"], st["variant"]))
        # the un-cut prefix states first, in order, so that audits[k] is the state after k events
        plain = [st for st in states if not st["variant"]]
        cut = [st for st in states if st["variant"]]
        ordered = plain + cut
        audits = crashdrv.run_audit(kind, [st["dir"] for st in ordered])
        judge(chk, kind, scen, events, ordered, audits, target, prop)
        if scen.get("gitconfig"):
            chk.case((kind, json.dumps(scen, sort_keys=True)), nontrivial=len(events) > 0)
            chk.count("events", len(events))
            chk.count("git-config-scenarios")
            chk.traces_validated += 1
            return kind, scen, events, ordered, audits, target, prop
        correspond(chk, kind, scen, events, ordered, audits, pre_files, files_of(kind, s, path), target, pre_trees)
        chk.case((kind, json.dumps(scen, sort_keys=True)), nontrivial=len(events) > 0)
        chk.count("events", len(events))
        chk.traces_validated += 1
        return kind, scen, events, ordered, audits, target, prop
    finally:
        shutil.rmtree(scratch, ignore_errors=True)


def run(chk):
    chk.rule = ("create / replace / re-upload of the same bytes / delete / set displayname, description, color, comment on "
                "tree-git, bare-git and vdir stores with 0-5 prior members and prior properties; an audit hook stops the "
                "operation before every file-system mutation (open for writing, rename, unlink, mkdir) and the directory "
                "is copied; files written in place are additionally cut at 0 %, 50 % and all-but-one byte; every copy is "
                "opened by a fresh process: it must open, every member must read back completely and validate, the "
                "interrupted member/property must be old or new, everything else unchanged, and every object reachable "
                "from a ref or from the index must be present; the recorded event sequence and the old/new verdict of "
                "every crash state are compared with the Lean micro-step model")
    chk.lean_obligations(MODULE, AUDIT)
    quick = chk.tier == "quick"
    for kind in KINDS:
        for scen in scenarios(chk.rng, quick):
            run_one(chk, kind, scen)
    chk.assumptions.append("process death with an intact page cache: no power loss (the code never calls fsync), "
                           "no reordering of directory updates; crash points are the boundaries of file-system calls "
                           "plus cuts inside plain writes")


def replay(chk, path):
    rep = json.load(open(path))
    print(json.dumps(rep, indent=1)[:6000])
    return 0
