"""C11 — calendar-query returns exactly the resources that match the filter (RFC 4791 §9.7, §9.9)."""
import datetime as dt
import itertools
import json
import shutil
import subprocess
import urllib.parse

import compat  # noqa: F401
import icalendar
from common import LEAN_DIR, Infra, scratch_dir
from httpdrv import make_server, parse_multistatus
import translate

AUDIT = "Audit/C11.lean"
MODULE = "Xandikos.Theorems.C11"
CAL = "/user/calendars/calendar"
NS = "urn:ietf:params:xml:ns:caldav"
XJ = LEAN_DIR + "/.lake/build/bin/xjdriver"
UTC = dt.timezone.utc
BASE = dt.datetime(2020, 3, 10, 0, 0, 0, tzinfo=UTC)
H12 = dt.timedelta(hours=12)


def run_json_driver(mode, objs):
    data = "\n".join(json.dumps(o) for o in objs) + "\n"
    p = subprocess.run([XJ, mode], input=data, capture_output=True, text=True, timeout=900)
    if p.returncode != 0:
        raise Infra("xjdriver failed: " + p.stderr[-1000:])
    out = [json.loads(l) for l in p.stdout.splitlines() if l.strip()]
    if len(out) != len(objs):
        raise Infra("xjdriver returned %d lines for %d" % (len(out), len(objs)))
    return out


# ---------------------------------------------------------------------------
# library-side oracle: the component tree as icalendar parses it

ZONE = [UTC]   # the zone floating and DATE values are resolved in (query's <C:timezone> or the server default)


def instant(v):
    """epoch seconds of a date / datetime value; floating and DATE values live in ZONE[0]."""
    if isinstance(v, dt.datetime):
        if v.tzinfo is None:
            v = v.replace(tzinfo=ZONE[0])
        return int(v.timestamp()), True
    d = dt.datetime.combine(v, dt.time(0), tzinfo=ZONE[0])
    return int(d.timestamp()), False


def pval(value):
    from icalendar.prop import vCategory, vDDDTypes, vDuration, vText
    params = [[str(k), str(v)] for k, v in getattr(value, "params", {}).items()]
    if isinstance(value, vCategory):
        return {"cats": [str(c) for c in value.cats], "params": params}
    if isinstance(value, str):   # vText, and vUnknown for X- properties
        return {"text": str(value), "params": params}
    if type(value).__name__ == "vPeriod":
        return {"period": [instant(value.start)[0], instant(value.end)[0]], "params": params}
    d = getattr(value, "dt", None)
    if isinstance(d, dt.timedelta):
        return {"dur": int(d.total_seconds()), "params": params}
    if isinstance(d, (dt.datetime, dt.date)):
        key, isdt = instant(d)
        return {"time": {"dt": isdt, "key": key}, "params": params}
    return {"other": True, "params": params}


def node(comp):
    props = []
    for name in comp.keys():
        vals = comp[name]
        if not isinstance(vals, list):
            vals = [vals]
        for v in vals:
            props.append([str(name).upper(), pval(v)])
    return {"name": comp.name, "props": props, "subs": [node(s) for s in comp.subcomponents]}


def tree_of(data):
    return node(icalendar.Calendar.from_ical(data))


# ---------------------------------------------------------------------------
# filters: python dict -> XML and -> JSON for the model

def fmt(t):
    return (BASE + t * H12).strftime("%Y%m%dT%H%M%SZ")


def tr_xml(tr):
    return '<C:time-range start="%s" end="%s"/>' % (fmt(tr[0]), fmt(tr[1])) if tr else ""


def tm_xml(tm):
    a = ""
    if tm.get("coll"):
        a += ' collation="%s"' % tm["coll"]
    if tm.get("neg"):
        a += ' negate-condition="yes"'
    return "<C:text-match%s>%s</C:text-match>" % (a, tm["text"].replace("&", "&amp;").replace("<", "&lt;"))


def propf_xml(pf):
    inner = "<C:is-not-defined/>" if pf.get("nd") else (
        tr_xml(pf.get("tr")) + "".join(tm_xml(t) for t in pf.get("tms", [])) +
        "".join('<C:param-filter name="%s">%s</C:param-filter>' % (
            p["name"], "<C:is-not-defined/>" if p.get("nd") else "".join(tm_xml(t) for t in p.get("tms", [])))
            for p in pf.get("params", [])))
    return '<C:prop-filter name="%s">%s</C:prop-filter>' % (pf["name"], inner)


def compf_xml(cf):
    if cf.get("nd"):
        return '<C:comp-filter name="%s"><C:is-not-defined/></C:comp-filter>' % cf["name"]
    return '<C:comp-filter name="%s">%s%s%s</C:comp-filter>' % (
        cf["name"], tr_xml(cf.get("tr")), "".join(propf_xml(p) for p in cf.get("props", [])),
        "".join(compf_xml(c) for c in cf.get("comps", [])))


def query_xml(cf, zone=None):
    tz = ""
    if zone:
        tz = ("<C:timezone>BEGIN:VCALENDAR\r\nVERSION:2.0\r\nPRODID:x\r\nBEGIN:VTIMEZONE\r\nTZID:%s\r\n"
              "END:VTIMEZONE\r\nEND:VCALENDAR\r\n</C:timezone>" % zone)
    return ('<?xml version="1.0" encoding="utf-8"?><C:calendar-query xmlns:D="DAV:" xmlns:C="%s"><D:prop><D:getetag/>'
            '<C:calendar-data/></D:prop><C:filter>%s</C:filter>%s</C:calendar-query>' % (NS, compf_xml(cf), tz)
            ).encode("utf-8")


def secs(t):
    return int((BASE + t * H12).timestamp())


def tm_json(tm):
    return {"text": tm["text"], "coll": tm.get("coll") or "i;ascii-casemap", "neg": bool(tm.get("neg"))}


def propf_json(pf):
    return {"name": pf["name"], "nd": bool(pf.get("nd")),
            "tr": [secs(pf["tr"][0]), secs(pf["tr"][1])] if pf.get("tr") else None,
            "tms": [tm_json(t) for t in pf.get("tms", [])],
            "params": [{"name": p["name"], "nd": bool(p.get("nd")), "tms": [tm_json(t) for t in p.get("tms", [])]}
                       for p in pf.get("params", [])]}


def compf_json(cf):
    return {"name": cf["name"], "nd": bool(cf.get("nd")),
            "tr": [secs(cf["tr"][0]), secs(cf["tr"][1])] if cf.get("tr") else None,
            "props": [propf_json(p) for p in cf.get("props", [])],
            "comps": [compf_json(c) for c in cf.get("comps", [])]}


# ---------------------------------------------------------------------------
# calendars

def ical(components):
    lines = ["BEGIN:VCALENDAR", "VERSION:2.0", "PRODID:-//verif//EN"]
    for c in components:
        lines.append("BEGIN:" + c["type"])
        lines.extend(c["lines"])
        for sub in c.get("subs", []):
            lines.append("BEGIN:" + sub["type"])
            lines.extend(sub["lines"])
            lines.append("END:" + sub["type"])
        lines.append("END:" + c["type"])
    lines.append("END:VCALENDAR")
    return ("\r\n".join(lines) + "\r\n").encode("utf-8")


def tval(t, form):
    """t in units of 12 h from BASE. forms: utc, float, date (t must be even), berlin."""
    d = BASE + t * H12
    if form == "utc":
        return ":" + d.strftime("%Y%m%dT%H%M%SZ")
    if form == "float":
        return ":" + d.strftime("%Y%m%dT%H%M%S")
    if form == "date":
        return ";VALUE=DATE:" + d.strftime("%Y%m%d")
    if form == "berlin":
        loc = d + dt.timedelta(hours=1)  # CET in March before the 29th
        return ";TZID=Europe/Berlin:" + loc.strftime("%Y%m%dT%H%M%S")
    raise ValueError(form)


def durval(n):
    if n == 0:
        return "PT0S"
    return "PT%dH" % (12 * n)


# ---------------------------------------------------------------------------

def server(chk, fe=None):
    scratch = scratch_dir()
    fe = fe or chk.rng.choice(["wsgi", "aiohttp"])
    prefix = chk.rng.choice(["/", "/dav/"])
    srv = make_server(fe, scratch + "/data", prefix=prefix, index_threshold=10 ** 9)
    return scratch, srv, fe, prefix


def run_batch(chk, members, filters, label, zone=None):
    """members: [(name, bytes)], filters: [dict]; one server, all queries; compare with model/RFC.
    zone: IANA name sent as <C:timezone> (floating and DATE values are then resolved in it)."""
    import zoneinfo
    scratch, srv, fe, prefix = server(chk)
    ZONE[0] = zoneinfo.ZoneInfo(zone) if zone else UTC
    try:
        base = prefix.rstrip("/") + CAL + "/"
        stored = []
        for name, data in members:
            r = srv.request("PUT", base + name, {"Content-Type": "text/calendar"}, data)
            if r.status not in (201, 204):
                chk.notes.append("PUT of generated calendar refused: %d" % r.status)
                continue
            g = srv.request("GET", base + name)
            stored.append((name, g.body))
        stored.sort(key=lambda m: m[0].encode())
        objs = [{"op": "reset"}] + [{"op": "cal", "name": n, "cal": tree_of(d)} for n, d in stored]
        objs += [{"op": "query", "filters": [compf_json(f)]} for f in filters]
        outs = run_json_driver("ical", objs)[len(stored) + 1:]
        for f, o in zip(filters, outs):
            r = srv.request("REPORT", base, {"Depth": "1", "Content-Type": "text/xml"}, query_xml(f, zone))
            if r.status == 207 and parse_multistatus(r.body):
                ms = parse_multistatus(r.body)
                names = []
                for it in ms[0]:
                    path = urllib.parse.unquote(urllib.parse.urlsplit(it["href"]).path)
                    n = path.rsplit("/", 1)[-1]
                    if n:
                        names.append(n)
                        cd = it["props"].get("{%s}calendar-data" % NS)
                        served = dict(stored).get(n)
                        if cd is not None and served is not None and \
                                (cd[1].text or "").replace("\r\n", "\n").encode("utf-8") != served.replace(b"\r\n", b"\n"):
                            chk.violation("C11:calendar-data-differs", f"calendar-data of {n} is not the resource's content",
                                          {"member": n})
                impl = sorted(names)
            else:
                impl = {"error": "status %d" % r.status}
            code, rfc = o["code"], o["rfc"]
            nontriv = bool(f.get("comps") or f.get("props") or f.get("tr"))
            chk.case((label, json.dumps(f, sort_keys=True), tuple(n for n, _ in stored)), nontrivial=nontriv)
            chk.count(label + ":queries")
            if len(chk.samples) < 5:
                chk.sample({"frontend": fe, "filter": compf_xml(f), "impl": impl, "rfc": rfc})
            if not o.get("sidecond", True):
                chk.count(label + ":not-judged-sidecondition")
                continue
            if isinstance(rfc, list):
                rfc = sorted(rfc)
            if isinstance(code, list):
                code = sorted(code)
            replay = {"level": "http", "frontend": fe, "prefix": prefix, "zone": zone,
                      "members": {n: d.decode("utf-8") for n, d in stored}, "request": query_xml(f, zone).decode("utf-8"),
                      "impl": impl, "rfc": rfc, "model": code}
            if impl != code:
                chk.broke("correspondence calendar-query", f"{compf_xml(f)}: impl {impl} model {code}", replay)
            if impl != rfc:
                if impl == code and has_text_match(f):
                    sig = "C11:text-match-is-equality-not-substring"
                else:
                    sig = "C11:wrong-result:" + feature_sig(f) + (":zone" if zone else "") + \
                        (":error" if isinstance(impl, dict) else "")
                chk.violation(sig, f"calendar-query {compf_xml(f)} answered {impl} but RFC 4791 gives {rfc}", replay)
        chk.traces_validated += 1
    finally:
        ZONE[0] = UTC
        srv.close()
        shutil.rmtree(scratch, ignore_errors=True)


def has_text_match(f):
    if any(p.get("tms") or any(q.get("tms") for q in p.get("params", [])) for p in f.get("props", [])):
        return True
    return any(has_text_match(c) for c in f.get("comps", []))


def feature_sig(f):
    feats = set()

    def walk(cf, depth):
        if cf.get("nd"):
            feats.add("comp-is-not-defined@%d" % depth)
        if cf.get("tr"):
            feats.add("time-range:" + cf["name"])
        for p in cf.get("props", []):
            if p.get("nd"):
                feats.add("prop-is-not-defined")
            if p.get("tr"):
                feats.add("prop-time-range")
            if p.get("tms"):
                feats.add("text-match")
            if p.get("params"):
                feats.add("param-filter")
        for c in cf.get("comps", []):
            walk(c, depth + 1)
    walk(f, 0)
    return "+".join(sorted(feats)) or "presence"


# ---------------------------------------------------------------------------
# (1) the §9.9 tables, exhaustively over order types

def time_grid(chk, quick, zone=None):
    """Every presence pattern of each table x value forms x all orderings on a small grid."""
    pts = range(0, 7, 2) if quick else range(0, 7)      # property instants (12 h units)
    ranges = [(1, 3), (2, 4), (2, 3), (0, 6)] if quick else [(s, e) for s in range(0, 7) for e in range(s + 1, 8)]
    forms = ["utc", "date"] if quick else ["utc", "float", "date", "berlin"]
    members = []
    k = 0

    def add(typ, lines):
        nonlocal k
        members.append(("t%04d.ics" % k, ical([{"type": typ, "lines": ["UID:g%d" % k, "SUMMARY:x"] + lines}])))
        k += 1

    for form in forms:
        ok = (lambda t: t % 2 == 0) if form == "date" else (lambda t: True)
        for a in pts:
            if not ok(a):
                continue
            # VEVENT: DTSTART only / +DTEND / +DURATION (0 and >0)
            add("VEVENT", ["DTSTART" + tval(a, form)])
            add("VJOURNAL", ["DTSTART" + tval(a, form)])
            add("VTODO", ["DTSTART" + tval(a, form)])
            add("VTODO", ["DUE" + tval(a, form)])
            add("VTODO", ["COMPLETED" + tval(a, "utc")])
            add("VTODO", ["CREATED" + tval(a, "utc")])
            for d in (0, 1, 2):
                add("VEVENT", ["DTSTART" + tval(a, form), "DURATION:" + durval(d)])
                add("VTODO", ["DTSTART" + tval(a, form), "DURATION:" + durval(d)])
            for b in pts:
                if not ok(b):
                    continue
                if b > a:
                    add("VEVENT", ["DTSTART" + tval(a, form), "DTEND" + tval(b, form)])
                    add("VFREEBUSY", ["DTSTART" + tval(a, "utc"), "DTEND" + tval(b, "utc")])
                    add("VFREEBUSY", ["FREEBUSY:%s/%s" % (tval(a, "utc")[1:], tval(b, "utc")[1:])])
                if b >= a:
                    add("VTODO", ["DTSTART" + tval(a, form), "DUE" + tval(b, form)])
                add("VTODO", ["COMPLETED" + tval(a, "utc"), "CREATED" + tval(b, "utc")])
    add("VTODO", [])
    add("VJOURNAL", [])
    chk.count("time_grid_members", len(members))
    filters = []
    for (s, e) in ranges:
        for typ in ("VEVENT", "VTODO", "VJOURNAL", "VFREEBUSY"):
            filters.append({"name": "VCALENDAR", "comps": [{"name": typ, "tr": (s, e)}]})
    # the server lists every member per query: split members into chunks to keep each REPORT small
    chunk = 120
    for i in range(0, len(members), chunk):
        run_batch(chk, members[i:i + chunk], filters, "time-grid" + ("@" + zone if zone else ""), zone=zone)
    chk.extra["time_grid_exhaustive_over"] = "presence patterns x %s forms x instants %s x ranges %s" % (
        forms, list(pts), len(ranges))


# ---------------------------------------------------------------------------
# (2) generated filters over generated calendars

SUMMARIES = ["Meeting with Bob", "bob", "BOB", "Lunch", "Déjeuner", "会議", "DÉJEUNER", "déjeuner", "école", "ÉCOLE"]
CATS = [["Work"], ["work", "Travel"], ["Home"]]


def gen_component(rng, i):
    typ = rng.choice(["VEVENT", "VEVENT", "VTODO", "VJOURNAL"])
    lines = ["UID:q%d" % i, "SUMMARY:" + rng.choice(SUMMARIES)]
    if typ != "VTODO" or rng.random() < 0.7:
        lines.append("DTSTART" + tval(rng.randrange(0, 6), rng.choice(["utc", "float", "date"])
                                      if typ != "VEVENT" else rng.choice(["utc", "float"])))
    if rng.random() < 0.5:
        lines.append("CATEGORIES:" + ",".join(rng.choice(CATS)))
    if rng.random() < 0.4:
        lines.append("LOCATION;LANGUAGE=%s:%s" % (rng.choice(["en", "de"]), rng.choice(["Room 1", "room 1", "Berlin"])))
    n_att = rng.choice([0, 0, 1, 2])
    for a in range(n_att):
        lines.append("ATTENDEE;PARTSTAT=%s:mailto:%s@example.com" % (rng.choice(["ACCEPTED", "DECLINED"]),
                                                                    rng.choice(["ann", "bob"])))
    if rng.random() < 0.3:
        lines.append("X-CUSTOM:%s" % rng.choice(["one", "ONE", "two"]))
    if typ == "VTODO" and rng.random() < 0.5:
        lines.append("CREATED" + tval(rng.randrange(0, 6), "utc"))
    if rng.random() < 0.3:
        # values that are "falsy" in Python: zero and the empty text are values all the same
        lines.append(rng.choice(["PRIORITY:0", "SEQUENCE:0", "X-EMPTY:", "PRIORITY:5"] +
                                (["PERCENT-COMPLETE:0"] if typ == "VTODO" else [])))
    subs = []
    if typ in ("VEVENT", "VTODO") and rng.random() < 0.35:
        subs.append({"type": "VALARM", "lines": ["ACTION:DISPLAY", "TRIGGER:-PT15M",
                                                 "DESCRIPTION:" + rng.choice(["Reminder", "reminder", "Wake"])]})
    return {"type": typ, "lines": lines, "subs": subs}


def gen_tm(rng, texts):
    return {"text": rng.choice(texts), "coll": rng.choice([None, "i;ascii-casemap", "i;octet", "i;unicode-casemap"]),
            "neg": rng.random() < 0.25}


def gen_propf(rng):
    name = rng.choice(["SUMMARY", "CATEGORIES", "LOCATION", "ATTENDEE", "X-CUSTOM", "DTSTART", "CREATED", "X-NONE",
                       "PRIORITY", "X-EMPTY", "SEQUENCE", "PERCENT-COMPLETE"])
    pf = {"name": name}
    r = rng.random()
    if r < 0.2:
        pf["nd"] = True
    elif name in ("DTSTART", "CREATED") and r < 0.7:
        s = rng.randrange(0, 5)
        pf["tr"] = (s, s + rng.randrange(1, 4))
    elif name in ("SUMMARY", "CATEGORIES", "LOCATION", "X-CUSTOM") and r < 0.75:
        pf["tms"] = [gen_tm(rng, {"SUMMARY": ["bob", "Bob", "Meeting with Bob", "Lunch", "déjeuner", "会議", "x", "DÉJEUNER", "école", "École"],
                                  "CATEGORIES": ["work", "Work", "Travel", "ork"],
                                  "LOCATION": ["room 1", "Room 1", "Berlin", "oom"],
                                  "X-CUSTOM": ["one", "ONE", "two"]}[name])
                     for _ in range(rng.choice([1, 1, 2]))]
    elif name in ("LOCATION", "ATTENDEE") and r < 0.95:
        pname = {"LOCATION": "LANGUAGE", "ATTENDEE": "PARTSTAT"}[name]
        pf["params"] = [{"name": rng.choice([pname, "X-ABSENT"]), "nd": rng.random() < 0.3,
                         "tms": [gen_tm(rng, ["en", "EN", "de", "ACCEPTED", "accepted", "DECLINED"])
                                 for _ in range(rng.choice([0, 1]))]}]
    return pf


def gen_filter(rng):
    comps = []
    for _ in range(rng.choice([0, 1, 1, 1, 2])):
        typ = rng.choice(["VEVENT", "VTODO", "VJOURNAL", "VFREEBUSY", "VTIMEZONE"])
        cf = {"name": typ}
        r = rng.random()
        if r < 0.15:
            cf["nd"] = True
        else:
            if rng.random() < 0.3 and typ != "VTIMEZONE":
                s = rng.randrange(0, 5)
                cf["tr"] = (s, s + rng.randrange(1, 4))
            cf["props"] = [gen_propf(rng) for _ in range(rng.choice([0, 1, 1, 2]))]
            if rng.random() < 0.3:
                al = {"name": "VALARM"}
                if rng.random() < 0.4:
                    al["nd"] = True
                else:
                    al["props"] = [{"name": "DESCRIPTION", "tms": [gen_tm(rng, ["reminder", "Reminder", "Wake"])]}] \
                        if rng.random() < 0.6 else []
                cf["comps"] = [al]
        comps.append(cf)
    top = {"name": "VCALENDAR", "comps": comps}
    if rng.random() < 0.15:
        top["props"] = [{"name": rng.choice(["VERSION", "X-WR-CALNAME"]), "nd": rng.random() < 0.5}]
    if rng.random() < 0.03:
        top = {"name": rng.choice(["VCALENDAR", "VCARD"]), "nd": True}
    return top


def generated(chk, n_books, n_members, n_queries):
    for b in range(n_books):
        members = []
        for i in range(n_members):
            comps = [gen_component(chk.rng, i)]
            if chk.rng.random() < 0.2:
                extra = gen_component(chk.rng, i)
                extra["type"] = comps[0]["type"]
                extra["lines"] = [l for l in extra["lines"] if not l.startswith("UID:")] + ["UID:q%d" % i,
                                                                                           "RECURRENCE-ID" + tval(2, "utc")]
                comps.append(extra)
            members.append(("m%d.ics" % i, ical(comps)))
        run_batch(chk, members, [gen_filter(chk.rng) for _ in range(n_queries)], "generated")


def cross_instance(chk, n):
    """prop-filters with two children on a property that occurs twice: separates 'one instance
    satisfies every child' from 'every child is satisfied by some instance'."""
    people = ["ann", "bob", "cyd"]
    stats = ["ACCEPTED", "DECLINED", "NEEDS-ACTION"]
    for b in range(n):
        members = []
        for i in range(5):
            who = chk.rng.sample(people, 2)
            st = [chk.rng.choice(stats), chk.rng.choice(stats)]
            lines = ["UID:x%d" % i, "SUMMARY:s", "DTSTART" + tval(0, "utc")] + [
                "ATTENDEE;PARTSTAT=%s:mailto:%s@example.com" % (st[k], who[k]) for k in range(2)]
            members.append(("x%d.ics" % i, ical([{"type": "VEVENT", "lines": lines}])))
        filters = []
        for w in people:
            for st in stats:
                filters.append({"name": "VCALENDAR", "comps": [{"name": "VEVENT", "props": [
                    {"name": "ATTENDEE", "tms": [{"text": "mailto:%s@example.com" % w, "neg": chk.rng.random() < 0.2}],
                     "params": [{"name": "PARTSTAT", "tms": [{"text": st}]}]}]}]})
        run_batch(chk, members, filters, "cross-instance")


def text_grid(chk):
    """text-match, exhaustively over a small family: values and patterns that differ in ASCII case,
    in non-ASCII case, in length — under every collation, negated or not, on SUMMARY and on a
    parameter"""
    vals = ["bob", "BOB", "Bob", "déjeuner", "DÉJEUNER", "Déjeuner", "école", "ÉCOLE", "straße", "STRASSE", "i", "İ"]
    members = [("v%02d.ics" % i, ical([{"type": "VEVENT", "lines": ["UID:v%d" % i, "SUMMARY:" + v, "DTSTART" + tval(0, "utc"),
                                                                   "LOCATION;LANGUAGE=%s:Room" % v.replace("ß", "ss")]}]))
               for i, v in enumerate(vals)]
    filters = []
    for t in vals:
        for coll in (None, "i;ascii-casemap", "i;octet", "i;unicode-casemap"):
            for neg in (False, True):
                filters.append({"name": "VCALENDAR", "comps": [{"name": "VEVENT", "props": [
                    {"name": "SUMMARY", "tms": [{"text": t, "coll": coll, "neg": neg}]}]}]})
        filters.append({"name": "VCALENDAR", "comps": [{"name": "VEVENT", "props": [
            {"name": "LOCATION", "params": [{"name": "LANGUAGE", "tms": [{"text": t.replace("ß", "ss"), "coll": None, "neg": False}]}]}]}]})
    run_batch(chk, members, filters, "text-grid")
    chk.count("text_grid_filters", len(filters))
    # white space is significant in TEXT values and in the text of a text-match: values and patterns
    # that differ only in leading / trailing / inner blanks
    blanks = ["Lunch", " Lunch", "Lunch ", " Lunch ", "Lun ch", "Lun  ch"]
    members = [("w%02d.ics" % i, ical([{"type": "VEVENT", "lines": ["UID:w%d" % i, "SUMMARY:" + v, "DTSTART" + tval(0, "utc"),
                                                                   "DESCRIPTION:x" + v + "x"]}]))
               for i, v in enumerate(blanks)]
    filters = []
    for t in blanks:
        for coll in (None, "i;octet"):
            for neg in (False, True):
                filters.append({"name": "VCALENDAR", "comps": [{"name": "VEVENT", "props": [
                    {"name": "SUMMARY", "tms": [{"text": t, "coll": coll, "neg": neg}]}]}]})
    run_batch(chk, members, filters, "text-grid-blanks")
    chk.count("text_grid_filters", len(filters))


def known_finding_probe(chk):
    """KF-C11-text-match-equality, deterministically."""
    members = [("kf.ics", ical([{"type": "VEVENT", "lines": ["UID:kf", "SUMMARY:Meeting with Bob",
                                                             "DTSTART" + tval(0, "utc")]}]))]
    f = {"name": "VCALENDAR", "comps": [{"name": "VEVENT", "props": [{"name": "SUMMARY", "tms": [{"text": "Bob"}]}]}]}
    run_batch(chk, members, [f], "kf-probe")


def regen(chk):
    res = translate.generate()
    text, err = res["TimeRange"]
    chk.extra["translation"] = {"apply_time_range_*": "ok" if text else "unavailable: " + err}
    if err:
        chk.notes.append("translation of the time-range functions unavailable (%s): tied by correspondence only" % err)
    else:
        import transval
        transval.validate(chk, ["TimeRange"])


def run(chk):
    chk.rule = ("(1) the RFC 4791 §9.9 tables, exhaustively: every presence pattern of VEVENT/VTODO/VJOURNAL/VFREEBUSY "
                "built as a real iCalendar object in DATE, floating, UTC and TZID forms over a grid of instants, queried "
                "through the real REPORT with every time range of the grid (all weak orderings of start/end against the "
                "property instants occur); (2) generated calendars (1-2 components of a type, VALARMs, CATEGORIES, "
                "repeated ATTENDEEs, parameters) under generated nested filters (comp/prop/param filters, time-range, "
                "text-match x collation x negate, is-not-defined at every level); every answer is compared with the "
                "Lean model and, because model = RFC spec is proved, with the RFC; non-trivial = the filter constrains "
                "something")
    chk.lean_obligations(MODULE, AUDIT, regen=regen)
    quick = chk.tier == "quick"
    known_finding_probe(chk)
    time_grid(chk, quick)
    # the same tables with floating and DATE values resolved in a zone far from UTC
    time_grid(chk, True, zone=chk.rng.choice(["Pacific/Auckland", "America/Los_Angeles"]) if quick else "Pacific/Auckland")
    if not quick:
        time_grid(chk, True, zone="America/Los_Angeles")
    text_grid(chk)
    generated(chk, 3 if quick else 40, 8, 30 if quick else 60)
    cross_instance(chk, 2 if quick else 20)
    chk.assumptions.append("server default time zone is UTC (no calendar-timezone property); recurrence (RRULE) is not generated")


def replay(chk, path):
    rep = json.load(open(path))
    r = rep.get("replay", rep)
    scratch = scratch_dir()
    srv = make_server(r["frontend"], scratch + "/data", prefix=r["prefix"], index_threshold=10 ** 9)
    try:
        base = r["prefix"].rstrip("/") + CAL + "/"
        for n, d in r["members"].items():
            srv.request("PUT", base + n, {"Content-Type": "text/calendar"}, d.encode("utf-8"))
        resp = srv.request("REPORT", base, {"Depth": "1", "Content-Type": "text/xml"}, r["request"].encode("utf-8"))
        ms = parse_multistatus(resp.body) if resp.status == 207 else None
        names = sorted(urllib.parse.unquote(i["href"]).rsplit("/", 1)[-1] for i in ms[0] if not i["href"].endswith("/")) if ms else resp.status
        print("answered", names, "RFC", r["rfc"])
        if names != r["rfc"]:
            print(f"VIOLATION property=C11 replay={path}")
            return 1
    finally:
        srv.close()
        shutil.rmtree(scratch, ignore_errors=True)
    return 0
