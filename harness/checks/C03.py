"""C03 — conditional requests are honoured and have no effect when they fail."""
import itertools
import json

import compat  # noqa: F401
from bodies import AttrTable, Tokens, enc
from common import run_driver
from httpfam import run_http_templates
from storefam import gen_many, replay_store, run_templates
import translate
import transval

AUDIT = "Audit/C03.lean"
MODULE = "Xandikos.Theorems.C03"
PREFIXES = ("C03:",)


def regen(chk):
    res = translate.generate()
    text, err = res["Etag"]
    chk.extra["translation"] = {"etag_matches": "ok" if text else "unavailable: " + err}
    if err:
        chk.notes.append("translation of webdav.etag_matches unavailable (%s): tied by correspondence on the header grid only" % err)
    else:
        transval.validate(chk, ["Etag"])
    transval.regen(chk, ["Gates", "StoreGate"])
    return err


def header_grid():
    tags = ['"aaa"', '"bbb"', '"ccc"']
    hs = set()
    for t in tags + ["*", "aaa", 'W/"aaa"', "", " ", ","]:
        hs.add(t)
    for a, b in itertools.product(tags + ["*"], repeat=2):
        for sep in [",", ", ", " ,", " , ", ",  "]:
            hs.add(a + sep + b)
    for a, b, c in itertools.permutations(tags, 3):
        hs.add(a + ", " + b + "," + c)
    hs |= {' "aaa"', '"aaa" ', '"aaa",', ',"aaa"', '"aaa",,"bbb"', '"a,aa"', "**", "* "}
    return sorted(hs)


def etag_grid(chk):
    """Real `etag_matches` vs model vs RFC spec, exhaustively over the header grid."""
    from xandikos.webdav import etag_matches
    lines, cases = [], []
    for h in header_grid():
        for cur in [None, '"aaa"', '"bbb"', '"zzz"']:
            lines.append("etag %s %s" % (enc(h), enc(cur)))
            cases.append((h, cur))
    out = run_driver("pure", lines)
    n_spec = 0
    for (h, cur), o in zip(cases, out):
        model, spec = o.split(" ")
        try:
            real = "1" if etag_matches(h, cur) else "0"
        except Exception as e:
            real = "raise:" + type(e).__name__
        chk.case(("etag", h, cur), nontrivial=spec != "-")
        if real != model:
            chk.broke("correspondence etag_matches", f"etag_matches({h!r}, {cur!r}) = {real}, model {model}",
                      {"header": h, "current": cur})
        if spec != "-":
            n_spec += 1
            if real != spec:
                chk.violation("C03:etag_matches-differs-from-rfc7232",
                              f"etag_matches({h!r}, {cur!r}) = {real} but RFC 7232 says {spec}",
                              {"level": "function", "header": h, "current": cur})
    chk.count("etag_grid_cases", len(cases))
    chk.count("etag_grid_wellformed", n_spec)
    chk.sample({"etag_matches": [cases[i] for i in (0, len(cases) // 2, len(cases) - 1)]})
    chk.extra["exhaustive_header_grid"] = True


def http_part(chk, toks, n, length):
    run_http_templates(chk, toks, n, length, "cond", PREFIXES)


def run(chk):
    chk.rule = ("(1) exhaustive grid of If-Match/If-None-Match header values (single tags, '*', 2/3-element lists "
                "in all orders with 5 paddings, unquoted, weak, empty, malformed) x 4 resource states through the real "
                "etag_matches, the Lean model and the RFC 7232 spec; (2) conditional histories over HTTP through both "
                "front ends and random route prefixes with headers drawn from {current, stale, other resource's, *, "
                "lists, unquoted, weak}; (3) store-level histories with replace_etag/etag arguments on all four back "
                "ends. non-trivial: well-formed header (grid) / at least two writes (history)")
    chk.lean_obligations(MODULE, AUDIT, regen=regen)
    etag_grid(chk)
    toks = Tokens()
    quick = chk.tier == "quick"
    http_part(chk, toks, 6 if quick else 60, 22 if quick else 30)
    tmpls = gen_many(chk, toks, 8 if quick else 100, 25, "cond")
    run_templates(chk, tmpls, toks, PREFIXES)


def replay(chk, path):
    rep = json.load(open(path))
    r = rep.get("replay", rep)
    if r.get("level") == "store":
        return replay_store(chk, rep, PREFIXES)
    if r.get("level") == "function":
        from xandikos.webdav import etag_matches
        out = run_driver("pure", ["etag %s %s" % (enc(r["header"]), enc(r["current"]))])[0]
        real = etag_matches(r["header"], r["current"])
        print("etag_matches(%r, %r) = %r; model/spec = %s" % (r["header"], r["current"], real, out))
        spec = out.split(" ")[1]
        if spec != "-" and ("1" if real else "0") != spec:
            print(f"VIOLATION property=C03 replay={path}")
            return 1
        return 0
    print(json.dumps(r, indent=1)[:3000])
    print("http-level replay: re-run the listed history with harness/httpfam.py")
    return 0
