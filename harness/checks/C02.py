"""C02 — ETags are strong validators and agree across every view."""
import json

from bodies import Tokens
from httpfam import run_http_templates
from storefam import gen_many, replay_store, run_templates
import transval

AUDIT = "Audit/C02.lean"
MODULE = "Xandikos.Theorems.C02"
PREFIXES = ("C02:",)


def run(chk):
    chk.rule = ("C01-style histories; after every step every view of every member's ETag is read (PUT response, "
                "GET and HEAD headers, PROPFIND getetag, calendar-/addressbook-multiget, calendar-/addressbook-query, "
                "sync-collection) and compared pairwise, and every ETag is compared with the sha1-blob / md5 of the "
                "bytes served, recomputed by the harness; store level on all four back ends, HTTP level through both "
                "front ends; non-trivial = at least two mutating operations")
    chk.lean_obligations(MODULE, AUDIT, regen=lambda c: transval.regen(c, ["StrongEtag"]))
    toks = Tokens()
    quick = chk.tier == "quick"
    tmpls = gen_many(chk, toks, 8 if quick else 120, 25 if quick else 35, "mixed")
    run_templates(chk, tmpls, toks, PREFIXES)
    run_http_templates(chk, toks, 4 if quick else 50, 18 if quick else 28, "mixed", PREFIXES, check_views=True)
    chk.assumptions.append("SHA-1 / MD5 collision-freeness (different bytes give different ETags)")


def replay(chk, path):
    rep = json.load(open(path))
    if rep.get("replay", rep).get("level") == "store":
        return replay_store(chk, rep, PREFIXES)
    print(json.dumps(rep, indent=1)[:4000])
    return 0
