"""C14 — only well-formed data is stored (store level and through both front ends)."""
import json
from bodies import Tokens
from storefam import gen_many, run_templates, replay_store
from httpfam import run_http_templates

AUDIT = "Audit/C14.lean"
MODULE = "Xandikos.Theorems.C14"
PREFIXES = ('C14:',)
PROFILE = 'mixed'


def run(chk):
    chk.rule = ('histories mixing valid bodies (line endings, escapes, sub-components, non-ASCII) with the invalid classes (empty, arbitrary text, truncated, control characters, card without BEGIN/END), immediate re-uploads included, on all four back ends; validity/normal form/UID of each body are computed by icalendar/vobject directly')
    chk.lean_obligations(MODULE, AUDIT)
    toks = Tokens()
    n = 12 if chk.tier == "quick" else 150
    tmpls = gen_many(chk, toks, n, 25 if chk.tier == "quick" else 40, PROFILE)
    run_templates(chk, tmpls, toks, PREFIXES)
    # the same under a restrictive umask (file modes differ from what git records)
    import os
    old_umask = os.umask(0o027)
    try:
        run_templates(chk, gen_many(chk, toks, 3 if chk.tier == "quick" else 30, 25, PROFILE), toks, PREFIXES,
                      kinds=["tree", "bare-disk"], label="umask-027")
    finally:
        os.umask(old_umask)
    # through the server, incl. a collection made by plain MKCOL (its type is only guessed)
    run_http_templates(chk, Tokens(), 5 if chk.tier == "quick" else 50, 30, "mixed", PREFIXES)


def replay(chk, path):
    return replay_store(chk, json.load(open(path)), PREFIXES)
