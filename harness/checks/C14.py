"""C14 — only well-formed data is stored (store-level part)."""
import json
from bodies import Tokens
from storefam import gen_many, run_templates, replay_store

AUDIT = "Audit/C14.lean"
MODULE = "Xandikos.Theorems.C14"
PREFIXES = ('C14:',)
PROFILE = 'mixed'


def run(chk):
    chk.rule = ('histories mixing valid bodies (line endings, escapes, sub-components, non-ASCII) with the invalid classes (empty, arbitrary text, truncated, control characters, card without BEGIN/END), immediate re-uploads included, on all four back ends; validity/normal form/UID of each body are computed by icalendar/vobject directly')
    chk.lean_obligations(MODULE, AUDIT)
    toks = Tokens()
    n = 12 if chk.tier == "quick" else 150
    tmpls = gen_many(chk, toks, n, 25 if chk.tier == "quick" else 40, PROFILE)
    run_templates(chk, tmpls, toks, PREFIXES)


def replay(chk, path):
    return replay_store(chk, json.load(open(path)), PREFIXES)
