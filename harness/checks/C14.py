"""C14 — only well-formed data is stored (store level and through both front ends)."""
import json
from bodies import Tokens
from storefam import gen_many, run_templates, replay_store
from httpfam import run_http_templates

AUDIT = "Audit/C14.lean"
MODULE = "Xandikos.Theorems.C14"
PREFIXES = ('C14:',)
PROFILE = 'mixed'


def run(chk):
    chk.rule = ('histories mixing valid bodies (line endings, escapes, sub-components, non-ASCII) with the invalid classes (empty, arbitrary text, truncated, control characters, card without BEGIN/END), immediate re-uploads included, on all four back ends; validity/normal form/UID of each body are computed by icalendar/vobject directly')
    import transval
    chk.lean_obligations(MODULE, AUDIT, regen=lambda c: transval.regen(c, ["ExcTables"]))
    toks = Tokens()
    n = 12 if chk.tier == "quick" else 150
    tmpls = gen_many(chk, toks, n, 25 if chk.tier == "quick" else 40, PROFILE)
    run_templates(chk, tmpls, toks, PREFIXES)
    # the same under a restrictive umask (file modes differ from what git records)
    import os
    old_umask = os.umask(0o027)
    try:
        run_templates(chk, gen_many(chk, toks, 3 if chk.tier == "quick" else 30, 25, PROFILE), toks, PREFIXES,
                      kinds=["tree", "bare-disk"], label="umask-027")
    finally:
        os.umask(old_umask)
    # through the server, incl. a collection made by plain MKCOL (its type is only guessed)
    run_http_templates(chk, Tokens(), 5 if chk.tier == "quick" else 50, 30, "mixed", PREFIXES)
    roundtrip_probe(chk)


TZ = ("BEGIN:VTIMEZONE\r\nTZID:%s\r\nBEGIN:STANDARD\r\nDTSTART:19701025T030000\r\nTZOFFSETFROM:%s\r\nTZOFFSETTO:%s\r\n"
      "TZNAME:S\r\nEND:STANDARD\r\nEND:VTIMEZONE\r\n")


def special_objects():
    """calendar objects whose normal form has more to get wrong than a plain event's"""
    head = "BEGIN:VCALENDAR\r\nVERSION:2.0\r\nPRODID:-//x//y//EN\r\n"
    ev = lambda uid, body: ("%sBEGIN:VEVENT\r\nUID:%s\r\n%sEND:VEVENT\r\nEND:VCALENDAR\r\n" % (head, uid, body)).encode()
    two_tz = (head + TZ % ("Europe/Berlin", "+0200", "+0100") + TZ % ("America/New_York", "-0400", "-0500") +
              "BEGIN:VEVENT\r\nUID:rt-two-zones\r\nDTSTART;TZID=Europe/Berlin:20240105T100000\r\n"
              "DTEND;TZID=America/New_York:20240105T120000\r\nSUMMARY:two zones\r\nEND:VEVENT\r\nEND:VCALENDAR\r\n").encode()
    return [
        ("recurring.ics", ev("rt-rrule", "DTSTART:20240101T090000Z\r\nDTEND:20240101T100000Z\r\nRRULE:FREQ=DAILY;COUNT=5\r\nSUMMARY:daily\r\n")),
        ("override.ics", ("%sBEGIN:VEVENT\r\nUID:rt-ov\r\nDTSTART:20240101T090000Z\r\nRRULE:FREQ=WEEKLY;COUNT=3\r\nSUMMARY:weekly\r\nEND:VEVENT\r\n"
                          "BEGIN:VEVENT\r\nUID:rt-ov\r\nRECURRENCE-ID:20240108T090000Z\r\nDTSTART:20240108T110000Z\r\nSUMMARY:moved\r\nEND:VEVENT\r\n"
                          "END:VCALENDAR\r\n" % head).encode()),
        ("twozones.ics", two_tz),
        ("alarm.ics", ev("rt-alarm", "DTSTART:20240102T090000Z\r\nSUMMARY:with alarm\r\nBEGIN:VALARM\r\nACTION:DISPLAY\r\nTRIGGER:-PT15M\r\n"
                                     "DESCRIPTION:soon\r\nEND:VALARM\r\n")),
        ("text.ics", ev("rt-text", "DTSTART:20240103T090000Z\r\nSUMMARY:a\\, b\\; c \\n d é\r\nATTENDEE:mailto:b@example.org\r\n"
                                   "ATTENDEE:mailto:a@example.org\r\nCATEGORIES:x,y\r\n")),
    ]


def roundtrip_probe(chk):
    """upload, let the server read the objects in every way it knows (GET, multiget, queries with a time range
    and with expansion, sync), then upload exactly what it serves: same ETag, same collection tag, no commit"""
    import shutil
    import urllib.parse
    import dulwich.repo
    import compat  # noqa: F401
    from common import scratch_dir
    from httpdrv import make_server, parse_multistatus
    C = "urn:ietf:params:xml:ns:caldav"
    for fe in ("wsgi", "aiohttp"):
        root = scratch_dir()
        srv = make_server(fe, root + "/data", prefix="/")
        try:
            base = "/user/calendars/calendar/"
            objs = special_objects()
            for n, d in objs:
                srv.request("PUT", base + n, {"Content-Type": "text/calendar"}, d)

            def ctag():
                r = srv.request("PROPFIND", base, {"Depth": "0", "Content-Type": "text/xml"},
                                b'<D:propfind xmlns:D="DAV:" xmlns:CS="http://calendarserver.org/ns/"><D:prop><CS:getctag/></D:prop></D:propfind>')
                ms = parse_multistatus(r.body) if r.status == 207 else None
                e = ms[0][0]["props"].get("{http://calendarserver.org/ns/}getctag") if ms and ms[0] else None
                return e[1].text if e else None

            def commits():
                repo = dulwich.repo.Repo(root + "/data" + base.rstrip("/"))
                try:
                    return sum(1 for _ in repo.get_walker())
                finally:
                    repo.close()
            hrefs = "".join("<D:href>%s</D:href>" % (base + urllib.parse.quote(n)) for n, _ in objs)
            reports = [
                '<C:calendar-multiget xmlns:D="DAV:" xmlns:C="%s"><D:prop><D:getetag/><C:calendar-data/></D:prop>%s</C:calendar-multiget>' % (C, hrefs),
                '<C:calendar-multiget xmlns:D="DAV:" xmlns:C="%s"><D:prop><C:calendar-data><C:expand start="20240101T000000Z" '
                'end="20240201T000000Z"/></C:calendar-data></D:prop>%s</C:calendar-multiget>' % (C, hrefs),
                '<C:calendar-query xmlns:D="DAV:" xmlns:C="%s"><D:prop><C:calendar-data><C:expand start="20240101T000000Z" '
                'end="20240201T000000Z"/></C:calendar-data></D:prop><C:filter><C:comp-filter name="VCALENDAR"><C:comp-filter name="VEVENT">'
                '<C:time-range start="20240101T000000Z" end="20240201T000000Z"/></C:comp-filter></C:comp-filter></C:filter></C:calendar-query>' % C,
                '<D:sync-collection xmlns:D="DAV:"><D:sync-token/><D:sync-level>1</D:sync-level><D:prop><D:getetag/></D:prop></D:sync-collection>',
            ]
            for rnd in (1, 2):
                for b in reports:
                    srv.request("REPORT", base, {"Depth": "1", "Content-Type": "text/xml"}, b.encode())
                for n, _ in objs:
                    g = srv.request("GET", base + urllib.parse.quote(n))
                    if g.status != 200:
                        chk.notes.append("round-trip probe: GET %s = %d" % (n, g.status))
                        continue
                    e0, t0, c0 = g.header("ETag"), ctag(), commits()
                    p = srv.request("PUT", base + urllib.parse.quote(n), {"Content-Type": "text/calendar", "If-Match": e0}, g.body)
                    g2 = srv.request("GET", base + urllib.parse.quote(n))
                    e1, t1, c1 = g2.header("ETag"), ctag(), commits()
                    chk.case(("roundtrip", fe, n, rnd), nontrivial=True)
                    if p.status not in (200, 201, 204) or (e0, t0, c0) != (e1, t1, c1) or g2.body != g.body:
                        what = ("refused (%d)" % p.status if p.status not in (200, 201, 204) else
                                "changed the ETag" if e0 != e1 else "changed the collection tag" if t0 != t1 else
                                "added a commit" if c0 != c1 else "changed the body served")
                        chk.violation("C14:reupload-of-the-served-body-is-not-a-noop:" + n.split(".")[0],
                                      f"{fe}: uploading what GET serves for {n} (round {rnd}, after multiget / expand / time-range / "
                                      f"sync reports) {what}: ETag {e0} -> {e1}, ctag {t0} -> {t1}, commits {c0} -> {c1}",
                                      {"level": "http", "frontend": fe, "member": n, "uploaded": g.body.decode("utf-8", "replace"),
                                       "original": dict(objs)[n].decode("utf-8")})
        finally:
            srv.close()
            shutil.rmtree(root, ignore_errors=True)


def replay(chk, path):
    return replay_store(chk, json.load(open(path)), PREFIXES)
