"""C07 — sync-collection (store-level part)."""
import json
from bodies import Tokens
from storefam import gen_many, run_templates, replay_store
from httpfam import run_http_templates

AUDIT = "Audit/C07.lean"
MODULE = "Xandikos.Theorems.C07"
PREFIXES = ('C07:',)
PROFILE = 'sync'


def run(chk):
    chk.rule = ('histories of writes/deletes/reverts with iter_changes requested for every token issued so far, the empty token and foreign tokens, on the git back ends; case = (back end, resolved history); non-trivial = at least two mutating operations')
    chk.lean_obligations(MODULE, AUDIT)
    toks = Tokens()
    n = 12 if chk.tier == "quick" else 150
    tmpls = gen_many(chk, toks, n, 25 if chk.tier == "quick" else 40, PROFILE)
    run_templates(chk, tmpls, toks, PREFIXES, kinds=["bare-mem", "bare-disk", "tree"])
    run_http_templates(chk, toks, 5 if chk.tier == "quick" else 60, 22 if chk.tier == "quick" else 30, "sync", PREFIXES, check_tags=True)


def replay(chk, path):
    return replay_store(chk, json.load(open(path)), PREFIXES)
