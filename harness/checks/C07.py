"""C07 — sync-collection (store-level part)."""
import json
from bodies import Tokens, vevent
from storefam import gen_many, run_templates, replay_store
from httpfam import run_http_templates

AUDIT = "Audit/C07.lean"
MODULE = "Xandikos.Theorems.C07"
PREFIXES = ('C07:',)
PROFILE = 'sync'


def run(chk):
    chk.rule = ('histories of writes/deletes/reverts with iter_changes requested for every token issued so far, the empty token and foreign tokens, on the git back ends; case = (back end, resolved history); non-trivial = at least two mutating operations')
    chk.lean_obligations(MODULE, AUDIT)
    toks = Tokens()
    n = 12 if chk.tier == "quick" else 150
    tmpls = gen_many(chk, toks, n, 25 if chk.tier == "quick" else 40, PROFILE)
    # deterministic probes, run first: content that moves to another name while the old name gets
    # new content; members whose names start with a dot; revert to an earlier state
    t1, t2, t3 = (toks.tok(vevent("probe-%d" % i, summary="probe %d" % i)) for i in (1, 2, 3))
    P = lambda n, t: ("put", n, "text/calendar", t, "none")
    probes = [
        [P("a.ics", t1), ("sync", "all"), ("del", "a.ics", "none"), P("b.ics", t1), P("a.ics", t2), ("sync", "all"),
         ("sync", None)],
        [P(".draft.ics", t1), ("sync", "all"), P("a.ics", t2), ("sync", "all"), P(".draft.ics", t3), ("sync", "all"),
         ("del", ".draft.ics", "none"), ("sync", "all"), ("sync", None)],
        [P("a.ics", t1), P("z.ics", t2), ("sync", "all"), ("del", "z.ics", "none"), P("m.ics", t2), P("a.ics", t3),
         ("sync", "all"), P("a.ics", t1), ("sync", "all")],
    ]
    tmpls = probes + tmpls
    run_templates(chk, tmpls, toks, PREFIXES, kinds=["bare-mem", "bare-disk", "tree"])
    run_http_templates(chk, toks, 5 if chk.tier == "quick" else 60, 22 if chk.tier == "quick" else 30, "sync", PREFIXES, check_tags=True)


def replay(chk, path):
    return replay_store(chk, json.load(open(path)), PREFIXES)
