"""C07 — sync-collection (store-level part)."""
import json
from bodies import Tokens, vevent
from storefam import gen_many, run_templates, replay_store
from httpfam import run_http_templates

AUDIT = "Audit/C07.lean"
MODULE = "Xandikos.Theorems.C07Code"
PREFIXES = ('C07:',)
PROFILE = 'sync'


def run(chk):
    chk.rule = ('histories of writes/deletes/reverts with iter_changes requested for every token issued so far, the empty token and foreign tokens, on the git back ends; case = (back end, resolved history); non-trivial = at least two mutating operations')
    import transval
    chk.lean_obligations(MODULE, AUDIT, regen=lambda c: transval.regen(c, ["IterChanges"]))
    toks = Tokens()
    n = 12 if chk.tier == "quick" else 150
    tmpls = gen_many(chk, toks, n, 25 if chk.tier == "quick" else 40, PROFILE)
    # deterministic probes, run first: content that moves to another name while the old name gets
    # new content; members whose names start with a dot; revert to an earlier state
    t1, t2, t3 = (toks.tok(vevent("probe-%d" % i, summary="probe %d" % i)) for i in (1, 2, 3))
    P = lambda n, t: ("put", n, "text/calendar", t, "none")
    probes = [
        [P("a.ics", t1), ("sync", "all"), ("del", "a.ics", "none"), P("b.ics", t1), P("a.ics", t2), ("sync", "all"),
         ("sync", None)],
        [P(".draft.ics", t1), ("sync", "all"), P("a.ics", t2), ("sync", "all"), P(".draft.ics", t3), ("sync", "all"),
         ("del", ".draft.ics", "none"), ("sync", "all"), ("sync", None)],
        [P("a.ics", t1), P("z.ics", t2), ("sync", "all"), ("del", "z.ics", "none"), P("m.ics", t2), P("a.ics", t3),
         ("sync", "all"), P("a.ics", t1), ("sync", "all")],
    ]
    tmpls = probes + tmpls
    run_templates(chk, tmpls, toks, PREFIXES, kinds=["bare-mem", "bare-disk", "tree"])
    run_http_templates(chk, toks, 5 if chk.tier == "quick" else 60, 22 if chk.tier == "quick" else 30, "sync", PREFIXES, check_tags=True)
    big_collection(chk)


def big_collection(chk, n=650):
    """A collection with several hundred members, brought there (and later emptied by half) in single
    commits — the way a bulk import or `git pull` does it: the sync reports from the empty token, from the
    token of the empty state and from the token of the full state must list every change, none twice."""
    import os
    import shutil
    import stat
    import urllib.parse
    import compat  # noqa: F401
    from dulwich.objects import Blob
    from common import scratch_dir
    from httpdrv import make_server, parse_multistatus
    from xandikos.store.git import BareGitStore
    for fe in (("wsgi",) if chk.tier == "quick" else ("wsgi", "aiohttp")):
        root = scratch_dir()
        srv = None
        try:
            srv = make_server(fe, root + "/data", prefix="/")
            srv.close()
            st = BareGitStore.create(os.path.join(root, "data", "user", "calendars", "big"))
            st.set_type("calendar")
            srv = make_server(fe, root + "/data", prefix="/")
            base = "/user/calendars/big/"

            def sync(token):
                tokxml = "<D:sync-token/>" if token is None else "<D:sync-token>%s</D:sync-token>" % token
                body = ('<?xml version="1.0"?><D:sync-collection xmlns:D="DAV:">%s<D:sync-level>1</D:sync-level>'
                        '<D:prop><D:getetag/></D:prop></D:sync-collection>' % tokxml).encode()
                r = srv.request("REPORT", base, {"Depth": "1", "Content-Type": "text/xml"}, body)
                ms = parse_multistatus(r.body) if r.status == 207 else None
                if not ms:
                    return None, None, "status %d" % r.status
                plus, minus = {}, []
                for it in ms[0]:
                    name = urllib.parse.unquote(urllib.parse.urlsplit(it["href"] or "").path)[len(base):]
                    if it["status"] == "404":
                        minus.append(name)
                    else:
                        e = it["props"].get("{DAV:}getetag")
                        plus.setdefault(name, []).append(e[1].text if e else None)
                return plus, minus, ms[1]

            def bulk(change):
                s2 = BareGitStore.open_from_path(os.path.join(root, "data", "user", "calendars", "big"))
                tree = s2._get_current_tree()
                objs = []
                cur = {}
                for name, data in change.items():
                    if data is None:
                        del tree[name.encode()]
                    else:
                        b = Blob.from_string(data)
                        tree[name.encode()] = (0o644 | stat.S_IFREG, b.id)
                        objs.append((b, name.encode()))
                        cur[name] = '"%s"' % b.id.decode()
                s2.repo.object_store.add_objects([(tree, "")] + objs)
                s2._commit_tree(tree.id, b"bulk change")
                return cur

            _, _, t_empty = sync(None)
            members = bulk({"e%04d.ics" % i: vevent("big-%d" % i, summary="event %d" % i) for i in range(n)})
            rep = {"level": "http", "frontend": fe, "collection": "bare repository with %d members written in one commit" % n}

            def judge(label, got, want_plus, want_minus):
                plus, minus, tok = got
                chk.case(("big-collection", fe, label), nontrivial=True)
                if plus is None:
                    chk.violation("C07:large-collection:report-refused", f"{label}: {tok}", dict(rep, step=label))
                    return None
                dup = [k for k, v in plus.items() if len(v) > 1] + [m for m in set(minus) if minus.count(m) > 1]
                gotp = {k: v[0] for k, v in plus.items()}
                if gotp != want_plus or sorted(minus) != sorted(want_minus) or dup:
                    missing = sorted(set(want_plus) - set(gotp))[:3] + sorted(set(want_minus) - set(minus))[:3]
                    chk.violation("C07:large-collection:report-is-not-the-change-set",
                                  f"{label}: {len(gotp)} changed + {len(minus)} removed reported, "
                                  f"{len(want_plus)} + {len(want_minus)} expected; missing e.g. {missing}; listed twice: {dup[:3]}",
                                  dict(rep, step=label, reported=len(gotp) + len(minus), expected=len(want_plus) + len(want_minus)))
                return tok
            judge("empty token, full collection", sync(None), members, [])
            t_full = judge("token of the empty state", sync(t_empty), members, [])
            gone = {k: None for k in sorted(members)[: n // 2 + 7]}
            changed = bulk(dict(gone, **{"e%04d.ics" % (n - 1): vevent("big-%d" % (n - 1), summary="changed")}))
            if t_full:
                judge("token of the full state, after removing half", sync(t_full), changed, list(gone))
            left = {k: v for k, v in members.items() if k not in gone}
            left.update(changed)
            judge("empty token, after removing half", sync(None), left, [])
            chk.count("large-collection-members", n)
        finally:
            if srv is not None:
                srv.close()
            shutil.rmtree(root, ignore_errors=True)


def replay(chk, path):
    return replay_store(chk, json.load(open(path)), PREFIXES)
