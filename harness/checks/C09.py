"""C09 — git history (store-level part)."""
import json
import os
import shutil

from bodies import Tokens, vevent
from common import scratch_dir
from storefam import gen_many, run_templates, replay_store
from httpfam import run_http_templates

AUDIT = "Audit/C09.lean"
MODULE = "Xandikos.Theorems.C09"
PREFIXES = ('C09:',)
PROFILE = 'mixed'


def run(chk):
    chk.rule = ('C01-style histories on the git back ends; after every step the commit chain is walked (count, parents, head tree) and compared with the model and with the number of acknowledged changes; git status/fsck run by the git CLI at the end of each history (quick) or after every step (thorough)')
    chk.lean_obligations(MODULE, AUDIT)
    toks = Tokens()
    n = 10 if chk.tier == "quick" else 120
    tmpls = gen_many(chk, toks, n, 25 if chk.tier == "quick" else 40, PROFILE)
    run_templates(chk, tmpls, toks, PREFIXES, kinds=["bare-mem", "bare-disk", "tree"], git_every_step=(chk.tier == "thorough"))
    meta = gen_many(chk, toks, 6 if chk.tier == "quick" else 80, 22, "meta")
    run_templates(chk, meta, toks, PREFIXES, kinds=["bare-mem", "bare-disk", "tree"], label="store-meta")
    run_http_templates(chk, toks, 4 if chk.tier == "quick" else 50, 20, "git", PREFIXES, git_checks=True)
    failing_ops_probe(chk)
    recreate_probe(chk)


def failing_ops_probe(chk):
    """Requests that fail half-way (an exception after the operation started) must leave the three
    views — working tree, index, HEAD — in agreement, no lock behind, no commit."""
    from httpdrv import make_server
    from storedrv import git_cli_checks
    import dulwich.repo
    P = "/user/calendars/calendar/"
    for fe in ("wsgi", "aiohttp"):
        root = scratch_dir()
        srv = make_server(fe, root + "/data", prefix="/")
        d = root + "/data" + P.rstrip("/")
        try:
            steps = [
                ("PUT", P + "twice.ics", {"Content-Type": "text/calendar"}, vevent("dup-sum", extra="SUMMARY:again")),
                ("DELETE", P + "twice.ics", {}, b""),                 # describing the item for the commit message fails
                ("PUT", P + ("n" * 300) + ".ics", {"Content-Type": "text/calendar"}, vevent("long-name")),
                ("PUT", P + "ok.ics", {"Content-Type": "text/calendar"}, vevent("fine")),
                ("DELETE", P + "twice.ics", {"If-Match": '"0000000000000000000000000000000000000000"'}, b""),
                # another git process holds the index lock: writes are refused (423) and leave nothing
                ("LOCK", "", {}, b""),
                ("PUT", P + "ok.ics", {"Content-Type": "text/calendar"}, vevent("fine", summary="changed while locked")),
                ("PUT", P + "new-while-locked.ics", {"Content-Type": "text/calendar"}, vevent("nwl")),
                ("DELETE", P + "ok.ics", {}, b""),
                ("UNLOCK", "", {}, b""),
                ("PUT", P + "after.ics", {"Content-Type": "text/calendar"}, vevent("after")),
            ]
            held = False
            for (m, t, h, b) in steps:
                if m in ("LOCK", "UNLOCK"):
                    lock = os.path.join(d, ".git", "index.lock")
                    if m == "LOCK":
                        open(lock, "wb").close()
                    else:
                        os.remove(lock)
                    held = (m == "LOCK")
                    continue
                repo = dulwich.repo.Repo(d)
                n0 = sum(1 for _ in repo.get_walker())
                repo.close()
                r = srv.request(m, t, h, b)
                repo = dulwich.repo.Repo(d)
                n1 = sum(1 for _ in repo.get_walker())
                repo.close()
                chk.count("failing-ops-probe:%s:%d" % (m, r.status))
                rep = {"level": "http", "frontend": fe, "request": [m, t, h], "status": r.status}
                problems = git_cli_checks(d, False)
                if not held and os.path.exists(os.path.join(d, ".git", "index.lock")):
                    problems.append("index.lock left behind")
                if held and not os.path.exists(os.path.join(d, ".git", "index.lock")):
                    problems.append("the index lock held by another process was removed")
                if r.status >= 400 and n1 != n0:
                    problems.append("a request answered %d made %d commit(s)" % (r.status, n1 - n0))
                for pr in problems:
                    chk.violation("C09:failed-request-left-a-trace@" + fe,
                                  f"{fe}: {m} {t[:60]} answered {r.status}; afterwards: {pr}", rep)
            chk.case(("failing-ops", fe), nontrivial=True)
        finally:
            srv.close()
            shutil.rmtree(root, ignore_errors=True)


def recreate_probe(chk):
    """A collection that exists before the server starts, on a branch with another name than the one new
    repositories get, is read, deleted and created again at the same URL in one server process; every
    later change must be one commit on the branch HEAD names, with index and working tree in step."""
    from httpdrv import make_server
    from storedrv import git_cli_checks
    import dulwich.repo
    from xandikos.store.git import TreeGitStore
    from xandikos.icalendar import ICalendarFile
    P = "/user/calendars/old/"
    for fe in ("wsgi", "aiohttp"):
        root = scratch_dir()
        srv = make_server(fe, root + "/data", prefix="/")
        d = root + "/data" + P.rstrip("/")
        try:
            st = TreeGitStore.create(d)
            new_default = st.repo.refs.read_ref(b"HEAD")
            other = b"refs/heads/trunk" if new_default != b"ref: refs/heads/trunk" else b"refs/heads/stem"
            st.repo.refs.set_symbolic_ref(b"HEAD", other)
            st = TreeGitStore.open_from_path(d)
            st.load_extra_file_handler(ICalendarFile)
            st.import_one("before.ics", "text/calendar", [vevent("before")])
            del st
            steps = [("PROPFIND", P, {"Depth": "1"}, b""), ("GET", P + "before.ics", {}, b""),
                     ("DELETE", P, {}, b""), ("MKCALENDAR", P, {}, b""),
                     ("PUT", P + "x.ics", {"Content-Type": "text/calendar"}, vevent("x1")),
                     ("PUT", P + "y.ics", {"Content-Type": "text/calendar"}, vevent("y1")),
                     ("PUT", P + "x.ics", {"Content-Type": "text/calendar"}, vevent("x1", summary="changed")),
                     ("DELETE", P + "y.ics", {}, b"")]
            for (m, t, h, b) in steps:
                def head_commits():
                    if not os.path.isdir(os.path.join(d, ".git")):
                        return None
                    repo = dulwich.repo.Repo(d)
                    try:
                        try:
                            return [e.commit.id for e in repo.get_walker()]
                        except KeyError:
                            return []
                    finally:
                        repo.close()
                c0 = head_commits()
                r = srv.request(m, t, h, b)
                c1 = head_commits()
                chk.count("recreate-probe:%s:%d" % (m, r.status))
                rep = {"level": "http", "frontend": fe, "request": [m, t, h], "status": r.status,
                       "setup": "pre-existing tree repository on branch %s" % other.decode()}
                problems = git_cli_checks(d, False) if os.path.isdir(os.path.join(d, ".git")) else []
                if m in ("PUT", "DELETE") and t != P and r.status in (201, 204) and c0 is not None and c1 is not None:
                    if len(c1) != len(c0) + 1 or c1[1:] != c0:
                        problems.append("an acknowledged change took the branch HEAD names from %d to %d commits (the new "
                                        "head's ancestry is %s the old head)" % (len(c0), len(c1),
                                                                                 "" if c1[1:] == c0 else "not"))
                for pr in problems:
                    chk.violation("C09:history-not-on-the-collections-branch@" + fe,
                                  f"{fe}: {m} {t} answered {r.status}; afterwards: {pr}", rep)
            chk.case(("recreate", fe), nontrivial=True)
        finally:
            srv.close()
            shutil.rmtree(root, ignore_errors=True)


def replay(chk, path):
    return replay_store(chk, json.load(open(path)), PREFIXES)
