"""C09 — git history (store-level part)."""
import json
from bodies import Tokens
from storefam import gen_many, run_templates, replay_store
from httpfam import run_http_templates

AUDIT = "Audit/C09.lean"
MODULE = "Xandikos.Theorems.C09"
PREFIXES = ('C09:',)
PROFILE = 'mixed'


def run(chk):
    chk.rule = ('C01-style histories on the git back ends; after every step the commit chain is walked (count, parents, head tree) and compared with the model and with the number of acknowledged changes; git status/fsck run by the git CLI at the end of each history (quick) or after every step (thorough)')
    chk.lean_obligations(MODULE, AUDIT)
    toks = Tokens()
    n = 10 if chk.tier == "quick" else 120
    tmpls = gen_many(chk, toks, n, 25 if chk.tier == "quick" else 40, PROFILE)
    run_templates(chk, tmpls, toks, PREFIXES, kinds=["bare-mem", "bare-disk", "tree"], git_every_step=(chk.tier == "thorough"))
    meta = gen_many(chk, toks, 6 if chk.tier == "quick" else 80, 22, "meta")
    run_templates(chk, meta, toks, PREFIXES, kinds=["bare-mem", "bare-disk", "tree"], label="store-meta")
    run_http_templates(chk, toks, 4 if chk.tier == "quick" else 50, 20, "git", PREFIXES, git_checks=True)


def replay(chk, path):
    return replay_store(chk, json.load(open(path)), PREFIXES)
