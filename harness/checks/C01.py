"""C01 — contents equal the outcome of acknowledged writes."""
import json

from bodies import Tokens
from httpfam import run_http_templates
from storefam import gen_many, replay_store, run_templates

AUDIT = "Audit/C01.lean"
MODULE = "Xandikos.Theorems.C01Http"
PREFIXES = ("C01:",)


def run(chk):
    chk.rule = ("random-walk histories of put/delete/restart/sync over 3-6 names and ~10 bodies (valid, invalid, "
                "conditional) replayed (a) at the store API on bare-memory, bare-disk, tree and vdir stores and (b) "
                "over HTTP (PUT/POST/DELETE/MKCOL/MKCALENDAR/GET/PROPFIND, restarts) through the WSGI callable and a "
                "real aiohttp server under route prefixes /, /dav/, /a/b/, with a full audit (listing + every member) "
                "after each step; a case is one (back end or front end, resolved history); non-trivial = at least two "
                "mutating operations")
    chk.lean_obligations(MODULE, AUDIT)
    toks = Tokens()
    quick = chk.tier == "quick"
    tmpls = gen_many(chk, toks, 10 if quick else 150, 25 if quick else 35, "mixed")
    run_templates(chk, tmpls, toks, PREFIXES)
    run_http_templates(chk, toks, 5 if quick else 60, 22 if quick else 30, "mixed", PREFIXES)
    bare_collection(chk)


def bare_collection(chk):
    """xandikos serves collections in either git layout; over HTTP a collection that is a *bare* repository
    must behave like its non-bare twin: the same history is sent to both, each is judged against the map of
    acknowledged writes (GET of every path, Depth-1 listing after each step), and the two must agree."""
    import os
    import shutil
    import urllib.parse
    import compat  # noqa: F401
    from bodies import vcard, vevent
    from common import scratch_dir
    from httpdrv import make_server, parse_multistatus
    from xandikos.store.git import BareGitStore
    for fe in ("wsgi", "aiohttp"):
        root = scratch_dir()
        srv = None
        try:
            srv = make_server(fe, root + "/data", prefix="/")
            srv.close()
            for n, t in (("barecal", "calendar"), ("barebook", "addressbook")):
                st = BareGitStore.create(os.path.join(root, "data", "user", "calendars", n))
                st.set_type(t)
                del st
            srv = make_server(fe, root + "/data", prefix="/")
            srv.request("MKCALENDAR", "/user/calendars/treecal/", {}, b"")
            srv.request("MKCOL", "/user/calendars/treebook/", {}, b"")
            ev = lambda i, s: vevent("bare-%d" % i, summary=s)
            steps = [("PUT", "a.ics", ev(1, "one"), {}), ("PUT", "b c.ics", ev(2, "two"), {}),
                     ("PUT", "a.ics", ev(1, "one, changed"), {}), ("PUT", "a.ics", ev(1, "refused"), {"If-None-Match": "*"}),
                     ("PUT", "n.vcf", vcard("Card", uid="bare-card"), {}),
                     ("DELETE", "b c.ics", b"", {}), ("DELETE", "b c.ics", b"", {}), ("PUT", "b c.ics", ev(2, "again"), {}),
                     ("DELETE", "a.ics", b"", {"If-Match": '"0000000000000000000000000000000000000000"'})]

            def listing(base):
                r = srv.request("PROPFIND", base, {"Depth": "1", "Content-Type": "text/xml"},
                                b'<D:propfind xmlns:D="DAV:"><D:prop><D:getetag/></D:prop></D:propfind>')
                ms = parse_multistatus(r.body) if r.status == 207 else None
                if not ms:
                    return "status %d" % r.status
                return sorted(urllib.parse.unquote(urllib.parse.urlsplit(it["href"]).path)[len(base):]
                              for it in ms[0] if urllib.parse.unquote(urllib.parse.urlsplit(it["href"]).path) != base)
            names = sorted({s[1] for s in steps})
            state = {}
            for pair in (("barecal", "treecal"),):
                want = {c: {} for c in pair}          # acknowledged content per collection
                for k, (m, name, body, hdr) in enumerate(steps):
                    obs = {}
                    for c in pair:
                        base = "/user/calendars/%s/" % c
                        before = {n: srv.request("GET", base + urllib.parse.quote(n)) for n in names}
                        h = dict(hdr)
                        if m == "PUT":
                            h["Content-Type"] = "text/vcard" if name.endswith(".vcf") else "text/calendar"
                        r = srv.request(m, base + urllib.parse.quote(name), h, body)
                        ok = r.status in (200, 201, 204)
                        if ok and m == "PUT":
                            want[c][name] = True
                        elif ok:
                            want[c].pop(name, None)
                        after = {n: srv.request("GET", base + urllib.parse.quote(n)) for n in names}
                        lst = listing(base)
                        obs[c] = (ok, {n: (a.status, a.body if a.status == 200 else None) for n, a in after.items()}, lst)
                        rep = {"level": "http", "frontend": fe, "collection": c + (" (bare repository)" if c.startswith("bare") else ""),
                               "history": [[s[0], s[1], s[3]] for s in steps[:k + 1]]}
                        for n in names:
                            live = n in want[c]
                            if live != (after[n].status == 200):
                                chk.violation("C01:bare-collection:acknowledged-state-not-served",
                                              f"{fe}: {c}: after step {k} ({m} {name} -> {r.status}) GET {n} = {after[n].status}, "
                                              f"the acknowledged writes say it {'exists' if live else 'does not exist'}", rep)
                            if not ok and (before[n].status, before[n].body) != (after[n].status, after[n].body):
                                chk.violation("C01:bare-collection:refused-request-changed-something",
                                              f"{fe}: {c}: step {k} ({m} {name}) answered {r.status} and changed {n}", rep)
                        if isinstance(lst, list) and lst != sorted(want[c]):
                            chk.violation("C01:bare-collection:listing-is-not-the-live-members",
                                          f"{fe}: {c}: after step {k} the Depth-1 listing is {lst}, live members {sorted(want[c])}", rep)
                    chk.case(("bare-collection", fe, k), nontrivial=k >= 1)
                    a, b = obs[pair[0]], obs[pair[1]]
                    if a != b:
                        what = "answers" if a[0] != b[0] else ("listings" if a[2] != b[2] else "served members")
                        chk.violation("C01:bare-collection:differs-from-its-non-bare-twin",
                                      f"{fe}: step {k} ({m} {name}): the bare and the non-bare collection differ in their {what}",
                                      {"level": "http", "frontend": fe, "history": [[s[0], s[1], s[3]] for s in steps[:k + 1]]})
        finally:
            if srv is not None:
                srv.close()
            shutil.rmtree(root, ignore_errors=True)


def replay(chk, path):
    rep = json.load(open(path))
    if rep.get("replay", rep).get("level") == "store":
        return replay_store(chk, rep, PREFIXES)
    print(json.dumps(rep, indent=1)[:4000])
    return 0
