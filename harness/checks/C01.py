"""C01 — contents equal the outcome of acknowledged writes."""
from bodies import Tokens
from storefam import gen_many, run_templates

AUDIT = "Audit/C01.lean"
MODULE = "Xandikos.Theorems.C01"


def run(chk):
    chk.rule = ("random-walk histories of put/delete/restart/sync over 3-6 names and ~10 bodies "
                "(valid, invalid, conditional) replayed on bare-memory, bare-disk, tree and vdir stores "
                "with a full audit (listing + every member) after each step; a case is one "
                "(back end, resolved history); non-trivial = at least two mutating operations")
    chk.lean_obligations(MODULE, AUDIT)
    toks = Tokens()
    n = 12 if chk.tier == "quick" else 150
    tmpls = gen_many(chk, toks, n, 25 if chk.tier == "quick" else 35, "mixed")
    run_templates(chk, tmpls, toks, ("C01:",))


def replay(chk, path):
    import json
    from storefam import replay_store
    return replay_store(chk, json.load(open(path)), ("C01:",))
