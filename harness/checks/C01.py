"""C01 — contents equal the outcome of acknowledged writes."""
import json

from bodies import Tokens
from httpfam import run_http_templates
from storefam import gen_many, replay_store, run_templates

AUDIT = "Audit/C01.lean"
MODULE = "Xandikos.Theorems.C01Http"
PREFIXES = ("C01:",)


def run(chk):
    chk.rule = ("random-walk histories of put/delete/restart/sync over 3-6 names and ~10 bodies (valid, invalid, "
                "conditional) replayed (a) at the store API on bare-memory, bare-disk, tree and vdir stores and (b) "
                "over HTTP (PUT/POST/DELETE/MKCOL/MKCALENDAR/GET/PROPFIND, restarts) through the WSGI callable and a "
                "real aiohttp server under route prefixes /, /dav/, /a/b/, with a full audit (listing + every member) "
                "after each step; a case is one (back end or front end, resolved history); non-trivial = at least two "
                "mutating operations")
    chk.lean_obligations(MODULE, AUDIT)
    toks = Tokens()
    quick = chk.tier == "quick"
    tmpls = gen_many(chk, toks, 10 if quick else 150, 25 if quick else 35, "mixed")
    run_templates(chk, tmpls, toks, PREFIXES)
    run_http_templates(chk, toks, 5 if quick else 60, 22 if quick else 30, "mixed", PREFIXES)


def replay(chk, path):
    rep = json.load(open(path))
    if rep.get("replay", rep).get("level") == "store":
        return replay_store(chk, rep, PREFIXES)
    print(json.dumps(rep, indent=1)[:4000])
    return 0
