"""C08 — collection tag (store-level part)."""
import json
from bodies import Tokens
from storefam import gen_many, run_templates, replay_store
from httpfam import run_http_templates

AUDIT = "Audit/C08.lean"
MODULE = "Xandikos.Theorems.C08Http"
PREFIXES = ('C08:',)
PROFILE = 'mixed'


def run(chk):
    chk.rule = ('C01-style histories on the git back ends with the ctag read after every step; the Lean monitor compares all pairs of points (equal tag iff equal abstract contents) and the harness recomputes the git tree hash of the listed entries; case = (back end, resolved history); non-trivial = at least two mutating operations')
    chk.lean_obligations(MODULE, AUDIT)
    toks = Tokens()
    n = 12 if chk.tier == "quick" else 150
    tmpls = gen_many(chk, toks, n, 25 if chk.tier == "quick" else 40, PROFILE)
    run_templates(chk, tmpls, toks, PREFIXES, kinds=["bare-mem", "bare-disk", "tree"])
    run_http_templates(chk, toks, 5 if chk.tier == "quick" else 60, 22 if chk.tier == "quick" else 30, "tags", PREFIXES, check_tags=True)


def replay(chk, path):
    return replay_store(chk, json.load(open(path)), PREFIXES)
