"""C06 — UID uniqueness (store level and through both front ends)."""
import json
from bodies import Tokens, vevent
from storefam import gen_many, run_templates, replay_store
from httpfam import run_http_templates

AUDIT = "Audit/C06.lean"
MODULE = "Xandikos.Theorems.C06"
PREFIXES = ('C06:',)
PROFILE = 'uid'


def run(chk):
    chk.rule = ('random-walk histories over 3-4 .ics names and 3 UIDs drawn from a pool with case/space/escape variants (creates, overwrites that keep or change the UID, deletes, restarts, conditional writes) on all four back ends; a case is one (back end, resolved history); non-trivial = at least two mutating operations; plus HTTP histories (PUT, POST add-member with parameterised content types, DELETE) through both front ends')
    import transval
    chk.lean_obligations(MODULE, AUDIT, regen=lambda c: transval.regen(c, ["ExcTables", "StoreGate"]))
    toks = Tokens()
    n = 14 if chk.tier == "quick" else 200
    tmpls = gen_many(chk, toks, n, 25 if chk.tier == "quick" else 40, PROFILE)
    # deterministic probes, run first: a UID changes hands while the other of two long-lived store objects
    # (two workers of one deployment) looks away — by delete + create, and by an overwrite with another UID
    ua, ub, ux = (toks.tok(vevent("probe-u", summary="holder %d" % i)) for i in (1, 2, 3))
    other = toks.tok(vevent("probe-other", summary="other"))
    changed = toks.tok(vevent("probe-changed", summary="holder 1 with a new uid"))
    P = lambda n, t: ("put", n, "text/calendar", t, "none")
    probes = [
        [P("a.ics", ua), P("x.ics", other), ("switch",), ("del", "a.ics", "none"), P("b.ics", ub), ("switch",),
         P("c.ics", ux), ("restart",), P("d.ics", ux)],
        [P("z.ics", ua), P("x.ics", other), ("switch",), P("z.ics", changed), P("b.ics", ub), ("switch",),
         P("c.ics", ux), P("z.ics", ux)],
        [P("a.ics", ua), ("del", "a.ics", "none"), P("b.ics", ub), P("a.ics", ux), ("del", "b.ics", "none"), P("a.ics", ux)],
    ]
    # a calendar object declared as something else: read back by its extension it is a calendar object resource,
    # so it may not take a UID that is held, and it keeps other writes from taking its own
    junk = toks.tok(b"this is not a calendar")
    Q = lambda n, ct, t: ("put", n, ct, t, "none")
    probes += [
        [P("a.ics", ua), Q("b.ics", "application/octet-stream", ub), Q("c.ics", "text/plain", ux), ("restart",),
         P("d.ics", ub), ("del", "a.ics", "none"), Q("e.ics", "application/octet-stream", ub), P("f.ics", ux)],
        [Q("s.ics", "application/octet-stream", ua), P("t.ics", ub), Q("j.ics", "application/octet-stream", junk),
         ("restart",), P("u.ics", ux)],
    ]
    run_templates(chk, probes + tmpls, toks, PREFIXES)
    # the same property through the server: PUT and POST (add-member, content types with parameters)
    run_http_templates(chk, Tokens(), 4 if chk.tier == "quick" else 40, 30, "mixed", PREFIXES)


def replay(chk, path):
    return replay_store(chk, json.load(open(path)), PREFIXES)
