"""C06 — UID uniqueness (store level and through both front ends)."""
import json
from bodies import Tokens
from storefam import gen_many, run_templates, replay_store
from httpfam import run_http_templates

AUDIT = "Audit/C06.lean"
MODULE = "Xandikos.Theorems.C06"
PREFIXES = ('C06:',)
PROFILE = 'uid'


def run(chk):
    chk.rule = ('random-walk histories over 3-4 .ics names and 3 UIDs drawn from a pool with case/space/escape variants (creates, overwrites that keep or change the UID, deletes, restarts, conditional writes) on all four back ends; a case is one (back end, resolved history); non-trivial = at least two mutating operations; plus HTTP histories (PUT, POST add-member with parameterised content types, DELETE) through both front ends')
    chk.lean_obligations(MODULE, AUDIT)
    toks = Tokens()
    n = 14 if chk.tier == "quick" else 200
    tmpls = gen_many(chk, toks, n, 25 if chk.tier == "quick" else 40, PROFILE)
    run_templates(chk, tmpls, toks, PREFIXES)
    # the same property through the server: PUT and POST (add-member, content types with parameters)
    run_http_templates(chk, Tokens(), 4 if chk.tier == "quick" else 40, 30, "mixed", PREFIXES)


def replay(chk, path):
    return replay_store(chk, json.load(open(path)), PREFIXES)
