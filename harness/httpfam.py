"""HTTP-level differential driver (both front ends, any route prefix).

A history template is run against a real server (WSGI callable or aiohttp on a socket); every
request becomes a protocol line `<op> | <canonical observation>` which the Lean `http` driver
replays on the model (`Http.put` …) and judges with the HTTP monitor (`Http.monitor…`).
"""
import re
import shutil
import urllib.parse

import compat  # noqa: F401
from bodies import AttrTable, Tokens, enc, enc_pairs, gen_ical, gen_vcard, INVALID_ICAL, UIDS
from common import run_driver, scratch_dir
from httpdrv import make_server, parse_multistatus

def penc(s):
    """the Lean codec's percent-encoding (everything but [A-Za-z0-9._-])"""
    return urllib.parse.quote(s, safe="").replace("~", "%7E")


DAV = "{DAV:}"
CAL = "/user/calendars/calendar"
BOOK = "/user/contacts/addressbook"

PROPFIND_BODY = (b'<?xml version="1.0" encoding="utf-8"?><propfind xmlns="DAV:"><prop>'
                 b'<getetag/><resourcetype/></prop></propfind>')


class HttpImpl:
    def __init__(self, frontend, prefix, toks, root, **kw):
        self.frontend = frontend
        self.prefix = prefix if prefix.endswith("/") else prefix + "/"
        self.toks = toks
        self.root = root
        self.srv = make_server(frontend, root + "/data", prefix=prefix if frontend == "main" else self.prefix, **kw)
        self.notes = []
        self.errors = []

    def close(self):
        self.srv.close()

    def setup_lines(self):
        import os
        lines = ["hnew", "hdir " + enc("/user"), "hprincipal " + enc("/user"),
                 # the home sets are repositories themselves (PrincipalBare.create → create_collection)
                 "hcoll %s other" % enc("/user/calendars"), "hcoll %s other" % enc("/user/contacts"),
                 "hcoll %s calendar" % enc(CAL), "hcoll %s addressbook" % enc(BOOK),
                 "hcoll %s inbox" % enc("/user/inbox")]
        for cp in (CAL, BOOK, "/user/inbox"):
            cfg = os.path.join(self.root, "data" + cp, ".xandikos")
            if os.path.isfile(cfg):
                # the metadata file's token is its text (`cfg:` + text), which the configparser model reads;
                # a `bN` token here was read as the text after its first four characters — nothing for
                # `b123`, a syntax error for `b1234`
                lines.append("hcfg %s %s" % (enc(cp), enc("cfg:" + open(cfg, "rb").read().decode("utf-8", "replace"))))
        return lines

    def target(self, path):
        return self.prefix.rstrip("/") + urllib.parse.quote(path)

    # etag canonicalisation ---------------------------------------------------
    def sym_etag(self, etag):
        """'"<sha>"' -> '"bN"' (unknown hashes keep their hex, prefixed with ?)."""
        if etag is None:
            return None
        m = re.fullmatch(r'"([0-9a-f]{40})"', etag)
        if m:
            return '"' + self.toks.of_etag(m.group(1), "tree") + '"'
        return "?" + etag

    def conc_header(self, h, ctag=None):
        """symbolic header -> the header sent: bN -> the ETag of that content, ctag -> the collection's
        current tag (hex tags of earlier states pass through unchanged)"""
        if h is None:
            return None
        h = re.sub(r"\bb\d+\b", lambda m: self.toks.etag_of(m.group(0), "tree"), h)
        if ctag is not None:
            h = re.sub(r"\bctag\b", ctag, h)
        return h

    # requests ---------------------------------------------------------------
    def put(self, path, ct, tok, im, inm):
        hdrs = {"Content-Type": ct}
        if im is not None:
            hdrs["If-Match"] = self.conc_header(im)
        if inm is not None:
            hdrs["If-None-Match"] = self.conc_header(inm)
        r = self.srv.request("PUT", self.target(path), hdrs, self.toks.data[tok])
        return self.write_obs(r, created=(r.status == 201))

    def write_obs(self, r, created):
        s = r.status
        if s in (201, 204, 200):
            e = self.sym_etag(r.header("ETag"))
            if e is None:
                return "error" if s != 200 else "other"
            return ("created " if created else "updated ") + enc(e)
        if s == 412:
            return "precondition"
        if s == 207:
            ms = parse_multistatus(r.body)
            if ms:
                for it in ms[0]:
                    if it["error"]:
                        return "refused " + enc(it["error"].split("}")[-1])
                    if it["status"] == "404":
                        return "notfound"
            # the error description may contain bytes that make the XML unparseable
            m = re.search(rb"(valid-calendar-data|no-uid-conflict|resource-must-be-null|valid-sync-token|supported-report)", r.body)
            if m:
                self.notes.append("note:unparseable-207-body")
                return "refused " + enc(m.group(1).decode())
            return "error"
        if s >= 500:
            self.errors.append((s, r.body[:400]))
        return {404: "notfound", 405: "notallowed", 409: "conflict", 423: "locked"}.get(
            s, "error" if s >= 500 else "other%d" % s)

    def post(self, path, ct, tok):
        r = self.srv.request("POST", self.target(path), {"Content-Type": ct}, self.toks.data[tok])
        if r.status in (200, 201) and r.header("Location"):
            loc = r.header("Location")
            name = urllib.parse.unquote(loc.rstrip("/").rsplit("/", 1)[-1])
            return "createdat " + enc(name), name
        return self.write_obs(r, created=True), None

    def delete(self, path, im, ctag=None):
        hdrs = {}
        if im is not None:
            hdrs["If-Match"] = self.conc_header(im, ctag)
        r = self.srv.request("DELETE", self.target(path), hdrs)
        if r.status == 204:
            return "deleted"
        return self.write_obs(r, created=False)

    def mk(self, method, path):
        r = self.srv.request(method, self.target(path), {})
        if r.status == 201:
            return "mkcol"
        return self.write_obs(r, created=False)

    def get(self, path, inm, method="GET"):
        hdrs = {}
        if inm is not None:
            hdrs["If-None-Match"] = self.conc_header(inm)
        r = self.srv.request(method, self.target(path), hdrs)
        if r.status == 200:
            e = r.header("ETag")
            if e is None:
                return "body ~ ~"
            if method == "HEAD":
                if r.body:
                    self.notes.append("C03:head-with-body")
                return "body %s ~" % enc(self.sym_etag(e))
            return "body %s %s" % (enc(self.sym_etag(e)), enc(self.toks.tok(r.body)))
        if r.status == 304:
            if r.body:
                self.notes.append("C03:304-with-body")
            return "notmodified"
        return self.write_obs(r, created=False)

    # multiget ---------------------------------------------------------------
    def expand_href(self, sel):
        """selector -> (text of the DAV:href element or None, the href the answer must carry,
        expectation): ("get", request-target) = whatever GET of that target serves;
        ("notfound",) by construction; ("nodata",) a collection; ("unjudged",)."""
        import posixpath
        p0 = self.prefix.rstrip("/")
        q = urllib.parse.quote
        kind = sel[0]
        if kind == "echo":       # a member in whose path the text of the mount point occurs again
            path = {"/dav": CAL + "/david.ics", "/a/b": "/user/calendars/a/b.ics"}.get(p0, CAL + "/a.ics")
            return p0 + q(path), p0 + path, ("get", p0 + q(path))
        if kind == "member":
            return p0 + q(sel[1]), p0 + sel[1], ("get", p0 + q(sel[1]))
        if kind == "variant":   # every second character escaped, lower-case hex digits
            out = []
            for i, ch in enumerate(sel[1]):
                if ch != "/" and i % 2 == 0:
                    out.append("".join("%%%02x" % b for b in ch.encode("utf-8")))
                else:
                    out.append(q(ch))
            return p0 + "".join(out), p0 + sel[1], ("get", p0 + q(sel[1]))
        if kind == "rawdelims":  # RFC 3986 sub-delims and ':' '@' left unescaped, as a client may send them
            return p0 + urllib.parse.quote(sel[1], safe="/!$&'()*+,;=:@"), p0 + sel[1], ("get", p0 + q(sel[1]))
        if kind == "abs":
            return "http://localhost" + sel[2] + p0 + q(sel[1]), p0 + sel[1], ("get", p0 + q(sel[1]))
        if kind == "otherhost":
            return "https://other.example" + p0 + q(sel[1]), p0 + sel[1], ("unjudged",)
        if kind == "dots":
            d, b = posixpath.split(sel[1])
            text = p0 + q(d) + "/zz/../" + ("./" if len(b) % 2 else "") + q(b)
            return text, urllib.parse.unquote(text), ("get", p0 + q(sel[1]))
        if kind == "query":     # a query or fragment on the href is not part of the path
            return p0 + q(sel[1]) + sel[2], p0 + sel[1], ("get", p0 + q(sel[1]))
        if kind == "outside":   # literal text that (for a non-root mount point) does not lie below it
            u = urllib.parse.urlsplit(sel[1])
            key = urllib.parse.unquote(u.path)
            if u.netloc:
                return sel[1], key, ("unjudged",)
            if u.path == p0 or u.path.startswith(p0 + "/"):
                return sel[1], key, ("get", u.path)
            return sel[1], key, ("notfound",)
        if kind == "lookalike":
            if p0:
                text = p0 + "x" + q(sel[1])
            else:
                text = q(sel[1].lstrip("/"))          # a relative reference
            return text, urllib.parse.unquote(text), ("notfound",)
        if kind == "empty":
            return None, "None", ("notfound",)
        if kind == "git":
            text = p0 + q(sel[1])
            return text, p0 + sel[1], ("notfound",)
        if kind == "coll":
            if p0 + sel[1] == "":
                return None, "None", ("notfound",)
            return p0 + q(sel[1]), p0 + sel[1], ("nodata",)
        raise ValueError(sel)

    def multiget(self, cpath, rkind, sels):
        import xml.sax.saxutils as sx
        ns = "urn:ietf:params:xml:ns:caldav" if rkind == "calendar" else "urn:ietf:params:xml:ns:carddav"
        data_tag = "{%s}%s" % (ns, "calendar-data" if rkind == "calendar" else "address-data")
        want_ct = "text/calendar" if rkind == "calendar" else "text/vcard"
        exp = [self.expand_href(sel) for sel in sels]
        body = ('<X:%s-multiget xmlns:D="DAV:" xmlns:X="%s"><D:prop><D:getetag/><X:%s/></D:prop>%s</X:%s-multiget>' % (
            rkind, ns, data_tag.split("}")[1],
            "".join("<D:href/>" if t is None else "<D:href>%s</D:href>" % sx.escape(t) for t, _, _ in exp), rkind))
        op = "MULTIGET %s %s %s" % (enc(self.prefix), rkind, " ".join(enc(t) for t, _, _ in exp))

        def ask(body):
            r = self.srv.request("REPORT", self.target(cpath + "/"), {"Depth": "0", "Content-Type": "text/xml"},
                                 body.encode("utf-8"))
            ms = parse_multistatus(r.body) if r.status == 207 else None
            if ms is None:
                return None, r
            items = []
            for it in ms[0]:
                key = urllib.parse.unquote(it["href"] or "")
                if it["status"] == "404":
                    items.append((key, None))
                    continue
                e = it["props"].get(DAV + "getetag")
                d = it["props"].get(data_tag)
                etag = e[1].text if e and e[0] == "200" else None
                data = (d[1].text or "") if d and d[0] == "200" else None
                items.append((key, (etag, data)))
            return items, r

        items, r = ask(body)
        if items is None:
            if r.status >= 500:
                self.errors.append((r.status, r.body[:400]))
                self.notes.append("C17:multiget-failed status %d for hrefs %r" % (r.status, [t for t, _, _ in exp]))
            return op + " | error%d" % r.status
        norm = lambda b: b.replace(b"\r\n", b"\n")
        # -- by-construction monitor ------------------------------------------------------
        keys = [k for k, _ in items]
        wanted = {}
        for t, k, e in exp:
            if k not in wanted or wanted[k][0] == "unjudged":
                wanted[k] = e
        for k in set(keys):
            if keys.count(k) > 1:
                self.notes.append("C17:href-answered-more-than-once %r" % k)
        for k in wanted:
            if k not in keys:
                self.notes.append("C17:requested-href-not-answered %r (answers: %r)" % (k, keys))
        out = []
        gets = {}
        for k, ans in sorted(items, key=lambda x: x[0]):
            e = wanted.get(k)
            if e is None:
                self.notes.append("C17:answer-for-an-href-that-was-not-requested %r" % k)
                e = ("unjudged",)
            gbody = None
            if e[0] == "get":
                if e[1] not in gets:
                    gets[e[1]] = self.srv.request("GET", e[1])
                g = gets[e[1]]
                getag = g.header("ETag") if g.status == 200 else None
                gct = (g.header("Content-Type") or "").split(";")[0].strip()
                exists = g.status == 200 and getag is not None
                if not exists and g.status == 200:
                    # a collection or page: rendered as HTML, never data
                    if ans is not None and ans[1] is not None:
                        self.notes.append("C17:data-for-a-resource-that-is-not-a-member %r" % k)
                elif not exists:
                    if ans is not None:
                        self.notes.append("C17:answer-other-than-404-for-an-href-GET-answers-%d %r: %r" % (g.status, k, ans))
                else:
                    gbody = g.body
                    if ans is None:
                        self.notes.append("C17:existing-member-answered-404 %r" % k)
                    else:
                        if ans[0] != getag:
                            self.notes.append("C17:etag-differs-from-GET %r: %r vs %r" % (k, ans[0], getag))
                        if gct == want_ct:
                            if ans[1] is None:
                                self.notes.append("C17:no-data-for-an-existing-member %r" % k)
                            elif norm(ans[1].encode("utf-8")) != norm(g.body):
                                self.notes.append("C17:data-differs-from-GET %r" % k)
                        elif ans[1] is not None:
                            self.notes.append("C17:data-for-a-resource-of-another-kind %r (%s)" % (k, gct))
            elif e[0] == "notfound":
                if ans is not None and (ans[1] is not None or ans[0] is not None):
                    self.notes.append("C17:resource-served-for-an-href-outside-the-namespace %r: etag %r data %s" % (
                        k, ans[0], "yes" if ans[1] is not None else "no"))
                elif ans is not None:
                    self.notes.append("C17:status-other-than-404-for-an-href-outside-the-namespace %r" % k)
            elif e[0] == "nodata":
                if ans is not None and ans[1] is not None:
                    self.notes.append("C17:data-for-a-collection %r" % k)
            # canonical answer
            if ans is None:
                out.append(penc(k) + ":404")
            else:
                etag, data = ans
                se = "~"
                if etag is not None:
                    sym = self.sym_etag(etag)
                    se = penc("ctag" if "?" in sym[:2] else sym)
                sd = "~"
                if data is not None:
                    if gbody is not None and norm(data.encode("utf-8")) == norm(gbody):
                        sd = penc(self.toks.tok(gbody))
                    else:
                        match = [t for t, b in self.toks.data.items() if norm(b) == norm(data.encode("utf-8"))]
                        # several bodies can be equal up to line endings (an upload with LF endings and its stored
                        # form): the one the ETag of this answer names is the one that was served
                        named = self.sym_etag(etag).strip('"') if etag is not None else None
                        sd = penc(named if named in match else match[0]) if match else "%3Funknown"
                out.append("%s:200;%s;%s" % (penc(k), se, sd))
        # -- independence: each href asked alone gets the same answer -----------------------
        if len(exp) > 1:
            for t, k, e in exp[:6]:
                one = ('<X:%s-multiget xmlns:D="DAV:" xmlns:X="%s"><D:prop><D:getetag/><X:%s/></D:prop>%s</X:%s-multiget>' % (
                    rkind, ns, data_tag.split("}")[1], "<D:href/>" if t is None else "<D:href>%s</D:href>" % sx.escape(t), rkind))
                alone, _r = ask(one)
                together = [a for kk, a in items if kk == k]
                if alone is None or len(alone) != 1 or not together or alone[0][1] != together[0]:
                    self.notes.append("C17:answer-depends-on-the-other-hrefs %r: alone %r, together %r" % (
                        k, alone and [a if a is None else (a[0], a[1] and len(a[1])) for _, a in alone],
                        [a if a is None else (a[0], a[1] and len(a[1])) for a in together]))
        return op + " | mg =" + ",".join(out)

    TAGPROPS = (b'<?xml version="1.0"?><D:propfind xmlns:D="DAV:" xmlns:CS="http://calendarserver.org/ns/"><D:prop>'
                b'<CS:getctag/><D:getctag/><D:sync-token/><D:getetag/></D:prop></D:propfind>')

    def tags(self, cpath):
        """The four projections of the collection tag; symbolic tree if they agree and hash correctly."""
        import os
        from bodies import git_tree_id, git_blob_id
        r = self.srv.request("PROPFIND", self.target(cpath + "/"), {"Depth": "0", "Content-Type": "text/xml"},
                             self.TAGPROPS)
        ms = parse_multistatus(r.body) if r.status == 207 else None
        if not ms or not ms[0]:
            return "notags", None
        props = ms[0][0]["props"]
        vals = {}
        for tag in ("{http://calendarserver.org/ns/}getctag", "{DAV:}getctag", "{DAV:}sync-token", "{DAV:}getetag"):
            pv = props.get(tag)
            vals[tag] = pv[1].text if pv and pv[0] == "200" else None
        ctag = vals["{DAV:}getctag"]
        if vals["{http://calendarserver.org/ns/}getctag"] != ctag or vals["{DAV:}sync-token"] != ctag \
                or vals["{DAV:}getetag"] != '"%s"' % ctag:
            self.notes.append("C08:tag-projections-disagree %r" % (vals,))
        if ctag is None:
            return "notags", None
        # recompute the git tree hash of what the collection lists (+ the metadata file, if any)
        lst = self.list(cpath)
        entries, sym = [], []
        if lst.startswith("list ="):
            for item in lst[len("list ="):].split(","):
                if item:
                    n, _, e = item.partition(":")
                    n, e = urllib.parse.unquote(n), urllib.parse.unquote(e).strip('"')
                    sym.append((n, e))
                    entries.append((n, self.toks.etag_of(e, "tree") if not e.startswith("?") else e[1:]))
        cfg = os.path.join(self.root, "data" + cpath, ".xandikos")
        if os.path.isfile(cfg):
            data = open(cfg, "rb").read()
            entries.append((".xandikos", git_blob_id(data)))
            sym.append((".xandikos", self.toks.tok(data)))
        sym.sort(key=lambda p: p[0].encode("utf-8"))
        if git_tree_id(entries) != ctag:
            return "tags =?" + ctag, ctag
        # the metadata file takes part in the hash; the symbolic form lists members only
        sym = [p for p in sym if p[0] != ".xandikos"]
        self.tree_of_tag = getattr(self, "tree_of_tag", {})
        self.tree_of_tag[ctag] = sym
        return "tags " + enc_pairs(sym), ctag

    def sync(self, cpath, token_text):
        """sync-collection REPORT with the given token text (None = empty token)."""
        tokxml = "<D:sync-token/>" if token_text is None else "<D:sync-token>%s</D:sync-token>" % (
            token_text.replace("&", "&amp;").replace("<", "&lt;"))
        body = ('<?xml version="1.0"?><D:sync-collection xmlns:D="DAV:">%s<D:sync-level>1</D:sync-level>'
                '<D:prop><D:getetag/></D:prop></D:sync-collection>' % tokxml).encode("utf-8")
        base = self.target(cpath + "/")
        r = self.srv.request("REPORT", base, {"Depth": "1", "Content-Type": "text/xml"}, body)
        # any error answer (412 valid-sync-token, 400, 500) is a rejection of the token
        if r.status != 207:
            return "rejected" if r.status >= 400 else "other%d" % r.status
        ms = parse_multistatus(r.body)
        if not ms:
            return "rejected"
        items, newtok = ms
        for it in items:
            if it["error"]:
                return "rejected"
        plus, minus = [], []
        basep = urllib.parse.unquote(base)
        for it in items:
            path = urllib.parse.unquote(urllib.parse.urlsplit(it["href"] or "").path)
            name = path[len(basep):] if path.startswith(basep) else "?" + path
            if it["status"] == "404":
                minus.append(name)
            else:
                et = it["props"].get(DAV + "getetag")
                plus.append((name, (self.sym_etag(et[1].text) or "?").strip('"') if et else "?none"))
        # the set of changed and removed members does not depend on which properties the client asks for
        for props in ("<D:getcontenttype/>", "<D:resourcetype/><D:displayname/>", ""):
            body2 = ('<?xml version="1.0"?><D:sync-collection xmlns:D="DAV:">%s<D:sync-level>1</D:sync-level>'
                     '<D:prop>%s</D:prop></D:sync-collection>' % (tokxml, props)).encode("utf-8")
            r2 = self.srv.request("REPORT", base, {"Depth": "1", "Content-Type": "text/xml"}, body2)
            ms2 = parse_multistatus(r2.body) if r2.status == 207 else None
            if not ms2:
                self.notes.append("C07:sync-report-refused-for-another-property-list %r: status %d" % (props, r2.status))
                continue
            names2 = sorted((urllib.parse.unquote(urllib.parse.urlsplit(it["href"] or "").path)[len(basep):],
                             it["status"] == "404") for it in ms2[0])
            names1 = sorted([(n, False) for n, _e in plus] + [(n, True) for n in minus])
            if names2 != names1:
                self.notes.append("C07:sync-report-depends-on-the-requested-properties %s: asking for %r gives %r, asking "
                                  "for getetag gives %r" % (cpath, props, names2, names1))
        plus.sort(key=lambda p: p[0].encode("utf-8"))
        minus.sort(key=lambda n: n.encode("utf-8"))
        qq = lambda x: urllib.parse.quote(x, safe="")
        chg = "changes =" + ",".join(["+" + qq(n) + ":" + qq(e) for n, e in plus] + ["-" + qq(n) for n in minus])
        sym = getattr(self, "tree_of_tag", {}).get(newtok)
        return chg + " " + (enc_pairs(sym) if sym is not None else "=?" + str(newtok))

    def list(self, cpath):
        r = self.srv.request("PROPFIND", self.target(cpath + "/"),
                             {"Depth": "1", "Content-Type": "text/xml"}, PROPFIND_BODY)
        if r.status != 207:
            return "nolist"
        ms = parse_multistatus(r.body)
        if not ms:
            return "nolist"
        items = []
        base = self.target(cpath + "/")
        for it in ms[0]:
            href = it["href"] or ""
            path = urllib.parse.unquote(urllib.parse.urlsplit(href).path)
            basep = urllib.parse.unquote(base)
            if path.rstrip("/") == basep.rstrip("/"):
                continue
            rt = it["props"].get(DAV + "resourcetype")
            is_coll = rt is not None and rt[1].find(DAV + "collection") is not None
            if is_coll or path.endswith("/"):
                continue
            name = path[len(basep):] if path.startswith(basep) else "?" + path
            et = it["props"].get(DAV + "getetag")
            etag = self.sym_etag(et[1].text) if et and et[0] == "200" else "?none"
            items.append((name, etag))
        items.sort(key=lambda p: p[0].encode("utf-8"))
        return "list " + enc_pairs(items)


CALNS = "urn:ietf:params:xml:ns:caldav"
CARDNS = "urn:ietf:params:xml:ns:carddav"


def _etags_of(impl, resp, base, data_tag=None, bodies=None, view=""):
    """{member name: symbolic etag or status} from a multistatus body; with `data_tag`, the data
    served next to an ETag must be the bytes GET serves under that ETag (modulo the CRLF
    normalisation of XML)"""
    ms = parse_multistatus(resp.body) if resp.status == 207 else None
    if not ms:
        return None, None
    out = {}
    basep = urllib.parse.unquote(base)
    norm = lambda b: b.replace(b"\r\n", b"\n")
    for it in ms[0]:
        path = urllib.parse.unquote(urllib.parse.urlsplit(it["href"] or "").path)
        if path.rstrip("/") == basep.rstrip("/"):
            continue
        name = path[len(basep):] if path.startswith(basep) else "?" + path
        if it["status"] == "404":
            out[name] = "404"
            continue
        et = it["props"].get(DAV + "getetag")
        out[name] = impl.sym_etag(et[1].text) if et and et[0] == "200" else "?none"
        if data_tag and bodies is not None:
            d = it["props"].get(data_tag)
            if d and d[0] == "200" and name in bodies and bodies[name][0] == (et[1].text if et else None):
                if norm((d[1].text or "").encode("utf-8")) != norm(bodies[name][1]):
                    impl.notes.append("C02:view-%s-serves-other-bytes-under-the-etag-of %r" % (view, name))
    return out, ms[1]


def views(impl, cpath, kind, foreign=()):
    """All the views of the members' ETags the server offers for one collection.  `foreign`: paths of
    resources of the same kind in OTHER collections; the multiget sent to this collection asks for
    them too, and must answer for each what GET on that path serves (or 404)."""
    base = impl.target(cpath + "/")
    res = {}
    hdr = {"Depth": "1", "Content-Type": "text/xml"}
    lst = impl.list(cpath)
    names = []
    if lst.startswith("list ="):
        d = {}
        for item in lst[len("list ="):].split(","):
            if item:
                n, _, e = item.partition(":")
                d[urllib.parse.unquote(n)] = urllib.parse.unquote(e)
        res["propfind"] = d
        names = sorted(d)
    ns = CALNS if kind == "calendar" else CARDNS
    pre = "calendar" if kind == "calendar" else "addressbook"
    data = "calendar-data" if kind == "calendar" else "address-data"
    bodies = {}
    for n in names:
        g = impl.srv.request("GET", base + urllib.parse.quote(n), {})
        if g.status == 200:
            bodies[n] = (g.header("ETag"), g.body)
    data_tag = "{%s}%s" % (ns, data)
    hrefs = "".join("<D:href>%s</D:href>" % (base + urllib.parse.quote(n)) for n in names)
    fgets = {}
    for fp in foreign:
        g = impl.srv.request("GET", impl.target(fp), {})
        key = "?" + urllib.parse.unquote(impl.target(fp))
        fgets[key] = impl.sym_etag(g.header("ETag")) if g.status == 200 and g.header("ETag") else "404"
        if g.status == 200:
            bodies[key] = (g.header("ETag"), g.body)
        hrefs += "<D:href>%s</D:href>" % impl.target(fp)
    body = ('<?xml version="1.0"?><X:%s-multiget xmlns:D="DAV:" xmlns:X="%s"><D:prop><D:getetag/><X:%s/></D:prop>%s'
            '</X:%s-multiget>' % (pre, ns, data, hrefs, pre)).encode()
    r = impl.srv.request("REPORT", base, hdr, body)
    res["multiget"], _ = _etags_of(impl, r, base, data_tag, bodies, "multiget")
    if res["multiget"] is not None:
        got = {k: res["multiget"].pop(k) for k in list(res["multiget"]) if k.startswith("?")}
        if got != fgets:
            impl.notes.append("C02:view-multiget-answers-for-a-resource-of-another-collection-differ-from-get %r vs %r"
                              % (got, fgets))
    flt = '<X:filter><X:comp-filter name="VCALENDAR"/></X:filter>' if kind == "calendar" else "<X:filter/>"
    body = ('<?xml version="1.0"?><X:%s-query xmlns:D="DAV:" xmlns:X="%s"><D:prop><D:getetag/><X:%s/></D:prop>%s</X:%s-query>'
            % (pre, ns, data, flt, pre)).encode()
    r = impl.srv.request("REPORT", base, hdr, body)
    res["query"], _ = _etags_of(impl, r, base, data_tag, bodies, "query")
    body = (b'<?xml version="1.0"?><D:sync-collection xmlns:D="DAV:"><D:sync-token/><D:sync-level>1</D:sync-level>'
            b'<D:prop><D:getetag/></D:prop></D:sync-collection>')
    r = impl.srv.request("REPORT", base, hdr, body)
    res["sync"], tok = _etags_of(impl, r, base)
    heads = {}
    for n in names:
        rr = impl.srv.request("HEAD", base + urllib.parse.quote(n), {})
        heads[n] = impl.sym_etag(rr.header("ETag")) if rr.status == 200 else "status%d" % rr.status
    res["head"] = heads
    return res


def header_for(sel, cur, hist, other):
    """Build a symbolic conditional header from a selector."""
    q = lambda t: '"%s"' % t
    bogus = '"' + "0" * 40 + '"'
    if sel == "none":
        return None
    if sel == "cur":
        return q(cur) if cur else bogus
    if sel == "stale":
        h = [e for e in hist if e != cur]
        return q(h[-1]) if h else '"' + "1" * 40 + '"'
    if sel == "other":
        return q(other) if other else '"' + "2" * 40 + '"'
    if sel == "star":
        return "*"
    if sel == "list-cur":
        return bogus + ", " + (q(cur) if cur else bogus)
    if sel == "list-cur2":
        return (q(cur) if cur else bogus) + " ,  " + bogus
    if sel == "list-miss":
        return bogus + "," + '"' + "3" * 40 + '"'
    if sel == "unquoted":
        return cur if cur else "0" * 40
    if sel == "weak":
        return "W/" + (q(cur) if cur else bogus)
    if sel == "star-list":
        return bogus + ", *"
    return sel


COND_SELS = ["none", "cur", "stale", "other", "star", "list-cur", "list-cur2", "list-miss",
             "unquoted", "weak", "star-list"]


def execute_http(frontend, prefix, template, toks, attrs, audit_paths, colls=(CAL, BOOK), check_views=False, git_checks=False, check_tags=False, **kw):
    root = scratch_dir()
    impl = HttpImpl(frontend, prefix, toks, root, **kw)
    lines = list(impl.setup_lines())
    hist = {}
    propvals = {}
    home_tags = {}
    known_colls = list(colls)
    issued = {}

    def cur_of(path):
        cp, _, name = path.rpartition("/")
        out = impl.list(cp)
        if out.startswith("list ="):
            body = out[len("list ="):]
            for item in body.split(","):
                if not item:
                    continue
                n, _, e = item.partition(":")
                if urllib.parse.unquote(n) == name:
                    e = urllib.parse.unquote(e)
                    return e.strip('"')
        return None

    def other_of(path):
        cp, _, name = path.rpartition("/")
        out = impl.list(cp)
        if out.startswith("list ="):
            for item in out[len("list ="):].split(","):
                if not item:
                    continue
                n, _, e = item.partition(":")
                if urllib.parse.unquote(n) != name:
                    return urllib.parse.unquote(e).strip('"')
        return None

    rawtags, generation = {}, {}

    def commit_counts():
        """collection path -> number of commits reachable from HEAD (tree repositories on disk)"""
        import os
        import dulwich.repo
        out = {}
        for cp in known_colls:
            d = root + "/data" + cp
            if os.path.isdir(os.path.join(d, ".git")):
                try:
                    repo = dulwich.repo.Repo(d)
                    try:
                        out[cp] = sum(1 for _ in repo.get_walker())
                    except KeyError:
                        out[cp] = 0
                    repo.close()
                except Exception:
                    pass
        return out

    def audit():
        if check_views:
            for cp, kind in ((CAL, "calendar"), (BOOK, "addressbook")):
                if cp not in known_colls:
                    continue
                ext = ".ics" if kind == "calendar" else ".vcf"
                vs = views(impl, cp, kind, [p for p in audit_paths if p.endswith(ext) and not p.startswith(cp + "/")
                                            and "/.git/" not in p])
                ref = vs.get("propfind")
                for vname, d in vs.items():
                    if d is None:
                        impl.notes.append("C02:view-%s-unavailable" % vname)
                    elif ref is None:
                        continue
                    elif vname == "query":
                        # a query lists the members that match its filter: judge the ETags it shows
                        bad = {k: v for k, v in d.items() if ref.get(k) != v}
                        if bad:
                            impl.notes.append("C02:view-query-disagrees-with-propfind %r vs %r" % (bad, ref))
                    elif d != ref:
                        impl.notes.append("C02:view-%s-disagrees-with-propfind %r vs %r" % (vname, d, ref))
        if check_tags:
            # the collections that CONTAIN the calendars and address books are collections with a tag of their
            # own; nothing in these histories writes to them, so their tags never move
            for hs in ("/user/calendars", "/user/contacts"):
                _o, sha_ = impl.tags(hs)
                if sha_ is not None and home_tags.setdefault(hs, sha_) != sha_:
                    impl.notes.append("C08:tag-changed-by-a-write-to-another-collection %s: %s then %s after `%s`" % (
                        hs, home_tags[hs], sha_, (lines[-1] if lines else "")[:120]))
                    home_tags[hs] = sha_
        for cp in known_colls:
            lines.append("LIST %s | %s" % (enc(cp), impl.list(cp)))
            if check_tags:
                obs, sha = impl.tags(cp)
                lines.append("TAGS %s | %s" % (enc(cp), obs))
                if sha is not None:
                    # within one incarnation of a collection and between two property changes the tag
                    # is a function of the members, whatever was read in between
                    key = (cp, generation.get(cp, 0), lines[-2].split(" | ", 1)[1])
                    if rawtags.setdefault(key, sha) != sha:
                        impl.notes.append("C08:same-members-different-tag %s: %s then %s for %s" % (
                            cp, rawtags[key], sha, key[2][:200]))
                    obs2, sha2 = impl.tags(cp)
                    if sha2 != sha:
                        impl.notes.append("C08:tag-changed-between-two-reads %s: %s then %s" % (cp, sha, sha2))
                if sha is not None and obs.startswith("tags =") and not obs.startswith("tags =?"):
                    issued.setdefault(cp, [])
                    if all(s != sha for s, _ in issued[cp]):
                        issued[cp].append((sha, obs[len("tags "):]))
        for p in audit_paths:
            lines.append("GET %s ~ | %s" % (enc(p), impl.get(p, None)))

    try:
        audit()
        for op in template:
            kind = op[0]
            if git_checks:
                before = commit_counts()
                nlines = len(lines)
            if kind == "PUT":
                _, path, ct, tok, im_sel, inm_sel = op
                pre = []
                attrs.ensure_all(tok, pre)
                lines.extend(pre)
                c, o = cur_of(path), other_of(path)
                im = header_for(im_sel, c, hist.get(path, []), o)
                inm = header_for(inm_sel, c, hist.get(path, []), o)
                obs = impl.put(path, ct, tok, im, inm)
                lines.append("PUT %s %s %s %s %s | %s" % (enc(path), enc(im), enc(inm), enc(ct), enc(tok), obs))
                if obs.startswith(("created", "updated")):
                    hist.setdefault(path, []).append(cur_of(path))
            elif kind == "POST":
                _, cpath, ct, tok = op
                pre = []
                attrs.ensure_all(tok, pre)
                lines.extend(pre)
                obs, name = impl.post(cpath, ct, tok)
                lines.append("POST %s %s %s %s | %s" % (enc(cpath), enc(ct), enc(tok), enc(name or ""), obs))
                if name:
                    audit_paths = list(audit_paths) + [cpath.rstrip("/") + "/" + name]
            elif kind == "DELETE":
                _, path, im_sel = op
                if path in known_colls and im_sel != "none":
                    # a conditional DELETE of a collection: its ETag is the collection tag, written
                    # `"ctag"` in the protocol line; tags of earlier states are sent as they were
                    _, sha = impl.tags(path)
                    seen = hist.setdefault(path, [])
                    im = header_for(im_sel, "ctag" if sha else None, [t for t in seen if t != sha], other_of(path))
                    if sha and sha not in seen:
                        seen.append(sha)
                    obs = impl.delete(path, im, ctag=sha)
                else:
                    c = cur_of(path)
                    im = header_for(im_sel, c, hist.get(path, []), other_of(path))
                    obs = impl.delete(path, im)
                lines.append("DELETE %s %s | %s" % (enc(path), enc(im), obs))
                if obs == "deleted" and path in known_colls:
                    known_colls.remove(path)
                    generation[path] = generation.get(path, 0) + 1
                    for k_ in [k_ for k_ in propvals if k_[0] == path]:
                        del propvals[k_]
            elif kind in ("MKCOL", "MKCALENDAR"):
                _, path = op
                obs = impl.mk(kind, path)
                lines.append("%s %s | %s" % (kind, enc(path), obs))
                if obs == "mkcol":
                    import posixpath
                    known_colls.append(posixpath.normpath(path))
            elif kind in ("GET", "HEAD"):
                _, path, inm_sel = op
                c = cur_of(path)
                inm = header_for(inm_sel, c, hist.get(path, []), other_of(path))
                obs = impl.get(path, inm, method=kind)
                lines.append("%s %s %s | %s" % (kind, enc(path), enc(inm), obs))
                continue
            elif kind == "WARM":
                # the same indexable calendar-query, asked often enough for the store to start (and then use)
                # its index: read-only requests, nothing to tell the model
                q = ('<?xml version="1.0"?><C:calendar-query xmlns:D="DAV:" xmlns:C="urn:ietf:params:xml:ns:caldav">'
                     '<D:prop><D:getetag/></D:prop><C:filter><C:comp-filter name="VCALENDAR"><C:comp-filter name="VEVENT">'
                     '<C:prop-filter name="SUMMARY"/></C:comp-filter></C:comp-filter></C:filter></C:calendar-query>').encode()
                for _ in range(8):
                    impl.srv.request("REPORT", impl.target(op[1] + "/"), {"Depth": "1", "Content-Type": "text/xml"}, q)
                continue
            elif kind == "SYNC":
                _, cpath, which = op
                if cpath not in known_colls:
                    continue
                obs, sha = impl.tags(cpath)      # make sure the current token is known
                lines.append("TAGS %s | %s" % (enc(cpath), obs))
                if sha is not None and not obs.startswith("tags =?") and obs.startswith("tags ="):
                    issued.setdefault(cpath, [])
                    if all(s != sha for s, _ in issued[cpath]):
                        issued[cpath].append((sha, obs[len("tags "):]))
                if which == "all":
                    for (s_, sym) in list(issued.get(cpath, [])):
                        lines.append("SYNC %s %s | %s" % (enc(cpath), sym, impl.sync(cpath, s_)))
                elif which == "empty":
                    lines.append("SYNC %s ~ | %s" % (enc(cpath), impl.sync(cpath, None)))
                else:
                    cur_sha = sha or "0" * 40
                    foreign = {"foreign": ["f" * 40, "0123456789abcdef0123456789abcdef01234567"],
                               "malformed": ["sync-token-1", "http://example.org/ns/sync/12", cur_sha[:39],
                                             cur_sha.upper(), '"%s"' % cur_sha, cur_sha + "0", " "]}[which]
                    if which == "foreign" and cpath in (CAL, BOOK):
                        # tokens the *other* default collection has issued (and answered a report for, so that
                        # whatever it remembers about them is in place): the two differ in their metadata
                        # file, which is part of the tree, so no tree of one is ever a tree of the other
                        other = BOOK if cpath == CAL else CAL
                        if other in known_colls:
                            o_obs, o_sha = impl.tags(other)
                            if o_sha is not None:
                                impl.sync(other, o_sha)
                                impl.sync(other, None)
                                own = {s for s, _ in issued.get(cpath, [])}
                                foreign = foreign + [s for s in [o_sha] + [s for s, _ in issued.get(other, [])][-2:]
                                                     if s not in own and s != sha]
                    for t in dict.fromkeys(foreign):
                        lines.append("SYNC %s !%s | %s" % (enc(cpath), urllib.parse.quote(t, safe=""),
                                                           impl.sync(cpath, t)))
                continue
            elif kind == "MULTIGET":
                _, cpath, rkind, sels = op
                lines.append(impl.multiget(cpath, rkind, sels))
                continue
            elif kind == "SETPROP":
                _, cpath, prop, val = op
                if cpath not in known_colls:
                    continue
                r = impl.srv.request("PROPPATCH", impl.target(cpath + "/"), {"Content-Type": "text/xml"},
                                     ('<D:propertyupdate xmlns:D="DAV:"><D:set><D:prop><D:%s>%s</D:%s></D:prop></D:set>'
                                      '</D:propertyupdate>' % (prop, val.replace("&", "&amp;").replace("<", "&lt;"), prop)
                                      ).encode("utf-8"))
                ok = r.status == 207 and b"200 OK" in r.body
                lines.append("SETPROP %s %s %s | %s" % (enc(cpath), enc(prop), enc(val), "set" if ok else "other%d" % r.status))
                # the metadata file is part of what the tag covers: a new epoch for the raw-tag monitor
                generation[cpath] = generation.get(cpath, 0) + 1
            elif kind == "restart":
                pre_tags = {cp: impl.tags(cp)[1] for cp in known_colls} if check_tags else {}
                impl.srv.restart()
                lines.append("restart | restart")
                for cp, t0 in pre_tags.items():
                    t1 = impl.tags(cp)[1]
                    if t0 != t1:
                        impl.notes.append("C08:tag-changed-by-a-restart %s: %s before, %s after, no request in between"
                                          % (cp, t0, t1))
            audit()
            if git_checks:
                after = commit_counts()
                while nlines < len(lines) and lines[nlines].split(" ", 1)[0] != kind:
                    nlines += 1          # skip the attr lines emitted before the operation
                obs = lines[nlines].split(" | ", 1)[1] if len(lines) > nlines and " | " in lines[nlines] else ""
                acked = kind in ("PUT", "POST", "DELETE") and obs.split(" ")[0] in ("created", "updated", "createdat", "deleted")
                if kind == "SETPROP" and obs == "set":
                    # an acknowledged property change: exactly one commit if the value is new, none otherwise
                    cp_, prop_, val_ = op[1], op[2], op[3]
                    changed = propvals.get((cp_, prop_)) != val_
                    propvals[(cp_, prop_)] = val_
                    n0_, n1_ = before.get(cp_), after.get(cp_)
                    if n0_ is not None and n1_ is not None and n1_ - n0_ != (1 if changed else 0):
                        impl.notes.append("C09:property-change-made-%d-commits %s: `%s` (%s value) took the collection from %d to %d commits"
                                          % (n1_ - n0_, cp_, lines[nlines][:120], "new" if changed else "same", n0_, n1_))
                    before = dict(before)
                    before[cp_] = after.get(cp_)
                for cp, n0 in before.items():
                    n1 = after.get(cp)
                    if n1 is None:
                        continue
                    import posixpath
                    target = posixpath.normpath(op[1]) if len(op) > 1 and isinstance(op[1], str) and op[1].startswith("/") else ""
                    mine = acked and (target == cp or target.startswith(cp + "/"))
                    if not mine and n1 != n0:
                        impl.notes.append("C09:commit-without-an-acknowledged-change %s: %d -> %d commits after `%s` (%s)" % (
                            cp, n0, n1, lines[nlines][:120] if len(lines) > nlines else kind, obs[:40]))
                    elif mine and n1 - n0 not in (0, 1):
                        impl.notes.append("C09:one-acknowledged-change-made-%d-commits %s after `%s`" % (n1 - n0, cp, lines[nlines][:120]))
        if git_checks:
            from storedrv import git_cli_checks
            import os
            for cp in known_colls:
                d = root + "/data" + cp
                if os.path.isdir(os.path.join(d, ".git")):
                    for pr in git_cli_checks(d, False):
                        impl.notes.append("C09:" + pr.replace(" ", "-", 2) + " in " + cp)
    finally:
        notes = impl.notes
        impl.close()
        shutil.rmtree(root, ignore_errors=True)
    return lines, notes


def compare_http(lines):
    out = run_driver("http", lines)
    dis, viol = [], []
    for i, (ln, o) in enumerate(zip(lines, out)):
        obs = ln.split(" | ", 1)[1].strip() if " | " in ln else None
        model, _, verdict = o.partition(" | ")
        model, verdict = model.strip(), verdict.strip()
        if obs is not None and model != obs and not ln.startswith(("hnew", "hdir", "hcoll", "hprincipal", "attr")):
            dis.append((i, ln, model))
        if verdict.startswith("VIOLATION"):
            viol.append((i, ln, verdict[len("VIOLATION "):]))
    return dis, viol


# `c%20d.ics` / `a%41.vcf` are names with a literal percent sign: decoded once more they would be the
# names of their neighbours `c d.ics` / `aA.vcf`
NAMES = {CAL: ["a.ics", "b.ics", "c d.ics", "c%20d.ics", "release.github.ics", ".draft.ics"],
         BOOK: ["k.vcf", "team.gitlab.vcf", "a%41.vcf", "aA.vcf"]}


def gen_http_template(rng, toks, length, profile="mixed"):
    uids = rng.sample(UIDS, 3)
    icals = [toks.tok(gen_ical(rng, uid=rng.choice(uids))) for _ in range(5)]
    cards = [toks.tok(gen_vcard(rng)) for _ in range(2)]
    bad = [toks.tok(b) for b in rng.sample(INVALID_ICAL, 2)]
    ops = []
    paths = [CAL + "/" + n for n in NAMES[CAL]] + [BOOK + "/" + n for n in NAMES[BOOK]]
    if profile == "git":
        # a name in decomposed form (NFD, what macOS/iOS clients send): the working-tree file, the index
        # entry and the tree entry must all carry the name as the client wrote it
        paths.append(CAL + "/re\u0301union-cafe\u0301.ics")
        # written first, with a UID of its own, so that it is a live member in every history
        ops.append(("PUT", paths[-1], "text/calendar", toks.tok(gen_ical(rng, uid="nfd-member-uid")), "none", "none"))
    if profile in ("git", "mixed"):
        ops.append(("MKCOL", "/user/extra"))
        paths += ["/user/extra/e1.ics", "/user/extra/e2.ics", "/user/extra/a.ics"]   # a.ics: a namesake
        if profile == "mixed" and len(icals) >= 2 and rng.random() < 0.7:
            # two members of two collections with one file name and different content
            ops.append(("PUT", CAL + "/a.ics", "text/calendar", icals[0], "none", "none"))
            ops.append(("PUT", "/user/extra/a.ics", "text/calendar", icals[1], "none", "none"))
    if profile == "tags":
        # a collection made by plain MKCOL (no type recorded) gets members too
        ops.append(("MKCOL", "/user/extra"))
        paths += ["/user/extra/e1.ics", "/user/extra/e2.ics", "/user/extra/e1.ics"]
        # probe: a collection that becomes empty again has the tag it had when it was empty
        ops += [("MKCOL", "/user/probe"), ("PUT", "/user/probe/p.ics", "text/calendar", icals[0], "none", "none"),
                ("GET", "/user/probe/p.ics", "none"), ("DELETE", "/user/probe/p.ics", "none")]
    if profile in ("mixed", "tags", "git"):
        # every name of the pools is written once at the start (some of these are refused: UID conflicts), so
        # that each kind of name — blanks, literal percent signs, leading dot, `.git` inside — is a live member
        # in every history and not only when the random walk happens to create it
        for p_ in paths:
            if p_.startswith(CAL + "/") or p_.startswith(BOOK + "/"):
                cal_ = p_.startswith(CAL)
                ops.append(("PUT", p_, "text/calendar" if cal_ else "text/vcard",
                            rng.choice(icals) if cal_ else rng.choice(cards), "none", "none"))
    if profile in ("mixed", "tags", "git"):
        # the calendar's query index is switched on by repeated queries; afterwards members that are not
        # calendar objects (a card, which the index cannot describe) are created and replaced in it
        ops += [("WARM", CAL), ("PUT", CAL + "/note.vcf", "text/vcard", cards[0], "none", "none"),
                ("POST", CAL, "text/vcard", cards[1]),
                ("PUT", CAL + "/note.vcf", "text/vcard", cards[1], "none", "none"),
                # add-member (the server picks the name, so only the declared type says what it is) with bodies
                # that are not calendar objects, under a plain and a parameterised calendar media type
                ("POST", CAL, "text/calendar", bad[0]),
                ("POST", CAL, "text/calendar; charset=utf-8", bad[-1]),
                ("POST", CAL, "text/calendar;charset=UTF-8; component=VEVENT", bad[0]),
                # …and a PUT under a name without an extension: there, too, only the declared type says what it is
                ("PUT", CAL + "/noext", "text/calendar; charset=utf-8", bad[0], "none", "none"),
                ("PUT", CAL + "/noext", "text/calendar", bad[-1], "none", "none")]
        paths.append(CAL + "/note.vcf")
    if profile == "sync" and len(icals) >= 2:
        # every history starts with one member created, changed and removed, a report after each step
        ops += [("PUT", CAL + "/a.ics", "text/calendar", icals[0], "none", "none"), ("SYNC", CAL, "all"),
                ("PUT", CAL + "/a.ics", "text/calendar", icals[1], "none", "none"), ("SYNC", CAL, "all"),
                ("DELETE", CAL + "/a.ics", "none"), ("SYNC", CAL, "all")]
    odd = [CAL + "/.git/z.ics", CAL + "/x/../a.ics", "/user/calendars/./calendar/b.ics", CAL + "//a.ics"]
    for _ in range(length):
        if profile == "git" and rng.random() < 0.1:
            # a property kept in the repository: a changed value is one commit, the same value none
            ops.append(("SETPROP", rng.choice([CAL, CAL, BOOK, "/user/extra"]), "displayname",
                        rng.choice(["Alpha", "Beta", "Gamma"])))
            continue
        if profile == "tags" and rng.random() < 0.12:
            # a property change whose stored form is not the one a rewrite of the metadata file would
            # produce (blanks are kept in the file and stripped on reading), followed by a restart:
            # starting the server must not touch the collection
            ops.append(("SETPROP", rng.choice([CAL, CAL, BOOK]), "displayname",
                        rng.choice(["Work ", " Home", "Team\t", "plain", "a  b "])))
            if rng.random() < 0.8:
                ops.append(("restart",))
        if profile == "sync" and ops and ops[-1][0] in ("PUT", "DELETE", "POST") and rng.random() < 0.35:
            # a report after about every third write: each asks for the changes since every token issued
            ops.append(("SYNC", CAL if rng.random() < 0.75 else BOOK, "all" if rng.random() < 0.8 else "empty"))
        r = rng.random()
        path = rng.choice(paths)
        if profile in ("mixed", "git") and rng.random() < (0.25 if profile == "git" else 0.06):
            path = rng.choice(odd)
        cal = path.startswith(CAL) or path in odd or path.startswith("/user/extra/")
        if profile == "cond":
            sel = lambda: rng.choice(COND_SELS)
        else:
            sel = lambda: rng.choice(["none"] * 8 + COND_SELS)
        if r < 0.5:
            if cal:
                tok = rng.choice(icals if rng.random() < 0.85 else bad)
                ct = rng.choice(["text/calendar", "text/calendar; charset=utf-8"])
                if path.lower().endswith(".ics") and rng.random() < 0.06:
                    ct = rng.choice(["application/octet-stream", "text/plain"])     # declared as something else
            else:
                tok = rng.choice(cards)
                ct = "text/vcard"
            im, inm = sel(), "none"
            if rng.random() < 0.3:
                im, inm = "none", sel()
            elif profile == "cond" and rng.random() < 0.3:
                im, inm = sel(), sel()          # both headers: both conditions have to hold
            if "/.git/" in path:
                # the WSGI front end answers every .git path itself (git smart/dumb HTTP)
                im, inm = "none", "none"
            ops.append(("PUT", path, ct, tok, im, inm))
        elif r < 0.7:
            ops.append(("DELETE", path, "none" if "/.git/" in path else sel()))
        elif r < 0.8:
            ops.append(("HEAD" if rng.random() < 0.35 else "GET", path, "none" if "/.git/" in path else sel()))
        elif r < 0.86:
            if profile == "cond" and rng.random() < 0.7:
                # conditional DELETE of a whole collection (its ETag is the collection tag): first with
                # a condition that cannot hold, then — after a write — with a drawn one (`stale` is then
                # the tag read at the first attempt); the collection is created again if it went away
                ops.append(("DELETE", CAL, rng.choice(["list-miss", "other", "unquoted", "weak"])))
                ops.append(("PUT", CAL + "/" + rng.choice(["a.ics", "b.ics", "fresh.ics"]), "text/calendar",
                            rng.choice(icals), "none", "none"))
                ops.append(("DELETE", CAL, rng.choice(["stale", "stale", "cur", "star", "list-cur", "list-miss"])))
                ops.append(("MKCALENDAR", CAL))
            elif profile in ("sync", "tags") and rng.random() < 0.8:
                ops.append(("SYNC", CAL if rng.random() < 0.7 else BOOK,
                            rng.choice(["all", "all", "empty", "foreign", "malformed"])))
            elif (profile == "tags" and rng.random() < 0.9) or (profile == "mixed" and rng.random() < 0.4):
                # delete a whole collection and create it again at the same URL
                ops.append(("DELETE", CAL, "none"))
                ops.append(("MKCALENDAR", CAL))
            else:
                ops.append(("restart",))
        elif r < 0.93:
            ops.append(("POST", CAL if rng.random() < 0.6 else BOOK,
                        rng.choice(["text/calendar", "text/calendar", "text/calendar; charset=utf-8",
                                    "text/calendar;charset=UTF-8; component=VEVENT"]) if rng.random() < 0.6 else
                        rng.choice(["text/vcard", "text/vcard; charset=utf-8"]),
                        rng.choice(bad) if rng.random() < 0.15 else
                        rng.choice(icals) if rng.random() < 0.6 else rng.choice(cards)))
        else:
            ops.append(("MKCOL" if rng.random() < 0.5 else "MKCALENDAR",
                        rng.choice(["/user/calendars/new", "/user/extra", "/nowhere/x", CAL])))
    if profile == "sync":
        # every history ends with tokens the server never issued
        ops.append(("SYNC", CAL, "malformed"))
        ops.append(("SYNC", rng.choice([CAL, BOOK]), "foreign"))
    if profile == "cond":
        # every path is read back under each kind of condition, with both methods (a path that does
        # not exist at that point answers 404 whatever the condition)
        for p in paths:
            for m in ("GET", "HEAD"):
                for s in rng.sample(["cur", "star", "list-cur", "list-cur2", "star-list"], 2) + \
                        rng.sample(["stale", "other", "list-miss", "unquoted", "weak", "none"], 2):
                    ops.append((m, p, s))
    return ops, paths


def run_http_templates(chk, toks, n, length, profile, prefixes, check_views=False, git_checks=False, check_tags=False,
                       frontends=("wsgi", "aiohttp"),
                       route_prefixes=("/", "/dav/", "/a/b/")):
    for i in range(n):
        tmpl, paths = gen_http_template(chk.rng, toks, length, profile)
        for fe in frontends:
            prefix = chk.rng.choice(route_prefixes)
            lines, notes = execute_http(fe, prefix, tmpl, toks, AttrTable(toks), paths, check_views=check_views,
                                        git_checks=git_checks, check_tags=check_tags)
            dis, viol = compare_http(lines)
            chk.traces_validated += 1
            nops = sum(1 for ln in lines if ln.split(" ", 1)[0] in ("PUT", "DELETE", "POST"))
            chk.count("http_ops", nops)
            chk.count("http_lines", len(lines))
            for ln in lines:
                head = ln.split(" ", 1)[0]
                if head in ("PUT", "DELETE", "POST", "MKCOL", "MKCALENDAR") and " | " in ln:
                    chk.count(f"{head}:{ln.split(' | ')[1].split(' ')[0]}")
            chk.case(hash((fe, prefix, tuple(lines))), nontrivial=nops >= 2)
            if i == 0:
                chk.sample({"frontend": fe, "prefix": prefix,
                            "ops": [ln for ln in lines if ln.split(" ", 1)[0] in ("PUT", "DELETE", "POST")][:8]})
            hist = lambda j: [l for l in lines[:j + 1] if l.split(" ", 1)[0] in
                              ("PUT", "DELETE", "POST", "MKCOL", "MKCALENDAR", "restart")]
            for note in notes:
                if note.startswith(prefixes):
                    chk.violation(note.split(" ")[0] + "@" + fe, note,
                                  {"level": "http", "frontend": fe, "prefix": prefix, "history": hist(len(lines))})
            for (j, ln, verdict) in viol:
                if verdict.startswith(prefixes):
                    sig = verdict.split(" ")[0]
                    chk.violation(f"{sig}@{fe}", f"{verdict} via {fe} prefix {prefix}",
                                  {"level": "http", "frontend": fe, "prefix": prefix, "line": ln, "history": hist(j)})
                    break
            if dis:
                j, ln, model = dis[0]
                chk.broke(f"correspondence http@{fe}", f"line {j}: impl `{ln}` but model says `{model}`",
                          {"frontend": fe, "prefix": prefix, "first": ln, "model": model, "history": hist(j)})
