"""Confirm + detect a batch of agent-produced mutations and file the confirmed ones under /verif/seeded."""
import json, os, shutil, subprocess, sys
sys.path.insert(0, os.path.dirname(os.path.abspath(__file__)))
import seeded

VERIF = os.path.dirname(os.path.dirname(os.path.abspath(__file__)))

def main():
    pid = sys.argv[1]
    checks = sys.argv[2].split(",") if len(sys.argv) > 2 else [pid]
    tier = sys.argv[3] if len(sys.argv) > 3 else "quick"
    rnd = os.environ.get("ROUND", "")           # e.g. r2: /tmp/mut/<pid>r2-out/m1 is filed as <pid>-m3
    shift = {"": 0, "r2": 2, "r3": 4, "r4": 6, "r5": 8}[rnd]
    for m in sorted(os.listdir(f"/tmp/mut/{pid}{rnd}-out")):
        d = f"/tmp/mut/{pid}{rnd}-out/{m}"
        if not os.path.isfile(os.path.join(d, "patch.diff")):
            continue
        print(f"===== {pid} {m}")
        conf = seeded.confirm(d, f"/tmp/mut/{pid}{rnd}")
        if not conf["confirmed"]:
            print("NOT CONFIRMED")
            continue
        det = seeded.detect(d, checks, tier)
        out = os.path.join(VERIF, "seeded", f"{pid}-m{int(m[1:]) + shift}" if m[1:].isdigit() else f"{pid}-{m}")
        os.makedirs(out, exist_ok=True)
        shutil.copy(os.path.join(d, "patch.diff"), out)
        shutil.copy(os.path.join(d, "demo.py"), out)
        meta = {}
        try:
            meta = json.load(open(os.path.join(d, "meta.json")))
        except Exception:
            pass
        meta["breaks_property"] = pid
        meta["confirmation"] = {k: conf[k] for k in ("demo_without_patch", "demo_with_patch", "baseline_tests_missing_with_patch")}
        meta["what_i_ran"] = [f"harness/seeded.py confirm {d} /tmp/mut/{pid}"] + [f"./check {c} --tier {tier} (patch applied to /repo, reverted afterwards)" for c in checks]
        meta["detection"] = det
        json.dump(meta, open(os.path.join(out, "meta.json"), "w"), indent=1)

main()
