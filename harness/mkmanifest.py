"""Writes MANIFEST.json from the table below (kept in one place so it stays valid)."""
import json
import os

VERIF = os.path.dirname(os.path.dirname(os.path.abspath(__file__)))

COMMON_NOTE = ("Trusted: Lean 4.33 kernel (+leanchecker in the thorough tier), axioms propext/Classical.choice/"
               "Quot.sound only, no sorry/axiom/native_decide (grepped and #print-axioms-audited every run); "
               "the theorem statements; the tie between model and /repo: ")

CHECKS = {
    "C01": dict(
        text="Refinement proof: the store model (bare/tree/vdir import_one, delete_one, listing) refines an abstract "
             "map spec on every history (induction over request lists); 'read = last acknowledged write', 'non-ok is a "
             "no-op', 'writes are local' are corollaries. The model is tied to /repo by differential execution of "
             "generated histories on the four real back ends with a full audit after each step, and a Lean spec monitor "
             "judges the implementation trace itself.",
        note="correspondence is sampling (generated + corpus histories), bodies are opaque tokens whose validity/UID/"
             "normal form are computed by calling icalendar/vobject directly; SHA-1/MD5 collision-freeness.",
        tech="Lean 4 refinement proof (induction over histories) + differential correspondence + Lean spec monitor",
        ref="5/C01"),
    "C02": dict(
        text="ETag = quoted token of the stored bytes (content addressing). Proved on the HTTP model: the tag PUT returns "
             "is the tag of the bytes now stored; GET/HEAD and the listing agree; equal strong tags iff equal bytes; a "
             "PUT changes the tag of at most the one member it writes; restarts change none. Tied to /repo by reading "
             "every view (PUT, GET, HEAD, PROPFIND, multiget, query, sync) after every step through both front ends and "
             "re-hashing every served body. "
             "web.create_strong_etag / extract_strong_etag are TRANSLATED from /repo on every run: the first is proved to be the model's `strong` and injective, the second to invert it on every tag that does not begin or end with a quote (what the conditional-update path of web.py relies on); the emitted Lean is run against the Python functions on a grid (translator validation).",
        note="correspondence is sampling; SHA-1/MD5 collision-freeness; report rendering itself is observed, not modelled. "
             "translator (harness/translate.py) trusted for the two ETag functions, itself tested differentially on every run (xgdriver).",
        tech="Python->Lean translation (strong-ETag functions) + Lean 4 proof over the content-addressed HTTP model + all-views differential audit",
        ref="5/C02"),
    "C03": dict(
        text="webdav.etag_matches is TRANSLATED from /repo's source to Lean on every run and proved equal to the model, "
             "which is proved to implement RFC 7232 on every well-formed header (any list, any padding, any resource "
             "state); on the handler model: failing If-Match/If-None-Match => 412 and the world is unchanged, an "
             "acknowledged PUT satisfied its conditions, DELETE (of members and of whole collections, whose ETag is "
             "the collection tag) and GET/HEAD (304) likewise, and the replace_etag/etag arguments of all three stores. "
             "Header grid is exhaustive through the real function; HTTP histories (GET and HEAD, one or both "
             "conditional headers, every path read back under matching and non-matching conditions) run through "
             "both front ends. "
             "The precondition gates of PutMethod.handle, DeleteMethod.handle and _do_get (the header reads and the 412/304 tests) are TRANSLATED too and proved equal to the model's tests (never raising).",
        note="translator (harness/translate.py) is trusted for etag_matches; handler and front-end header plumbing are "
             "tied by correspondence (sampling) — the WSGI/aiohttp adapters are exercised, not proved.",
        tech="Python->Lean translation (etag_matches, handler gates) + Lean 4 proof against an RFC 7232 spec + differential correspondence",
        ref="5/C03"),
    "C15": dict(
        text="The configparser file format is modelled in Lean (write + read, validated against CPython on >=5e4 "
             "configs) and proved to round-trip every well-formed config with safe values (multi-line included); on "
             "the store model, which computes the exact bytes of .xandikos, a successful set is proved to read back "
             "exactly, to leave every other property and every member untouched, to survive restarts and member "
             "writes. Tied to /repo by store-level histories (bare/tree) and PROPPATCH/PROPFIND histories through both "
             "front ends on three collections with restarts; the git-config back end is monitored only.",
        note="the recorded finding KF-C15-multiline (continuation lines starting with white space/#/;) is excluded by "
             "the SafeValue hypothesis and replayed deterministically; XML transport of values and the property "
             "handlers are tied by correspondence; dulwich's git-config codec is not modelled; ';' excluded there.",
        tech="Lean 4 round-trip proof of the configparser codec + store-model proof + differential correspondence",
        ref="5/C15"),
    "C06": dict(
        text="Invariant proof: `_scan_uids` is proved exact (after a scan the UID cache is the image of the current "
             "listing, whatever was scanned before) by induction over the two loops; from it: a UID refusal implies "
             "another member holds the UID now, an acknowledged write never creates a second holder, uniqueness is an "
             "invariant of every history, and the answer does not depend on the cache (restart transparency). Tied to "
             "/repo by differential histories on all four back ends plus a Lean monitor on the implementation trace. "
             "_check_duplicate (git and vdir: UID test, then replace_etag test) and _forget_uid are TRANSLATED from /repo on every run and proved equal to the model's dupError/etagError/forget. The except tables that turn a store refusal into the HTTP answer (set_body, create_member, PUT, POST) are TRANSLATED from /repo on every run and proved to compose to the model's mapping (DuplicateUidError -> no-uid-conflict on every write path). After the repair e675e71 an upload is opened as the type it is read back as; the handler part of the coherence hypothesis is proved for every declared content type.",
        note="correspondence is sampling; UIDs are what icalendar reports for a body (computed by the harness, not by "
             "xandikos); uniqueness is proved for histories whose uploads are 'coherent' (handler by content type = "
             "handler by extension, normalisation keeps the UID) — incoherent uploads are exercised by the harness only.",
        tech="Python->Lean translation (_check_duplicate, _forget_uid, except tables) + Lean 4 loop-invariant proof of the UID cache + history induction + differential correspondence",
        ref="5/C06"),
    "C07": dict(
        text="Proof that the tree diff behind sync-collection is exact (member reported changed/removed iff it differs/"
             "vanished; replaying the report on the old state yields the new one; equal states give an empty report; an "
             "unknown token is an error; issued tokens stay valid as the object store only grows). Tied to /repo by "
             "histories in which every issued token is queried at every later step. "
             "GitStore.iter_changes (a generator diffing two listings through a dict) is TRANSLATED from /repo on every run and proved to yield exactly the model's change list on the listings of any two trees (no KeyError/AssertionError).",
        note="store-level iter_changes is modelled; the HTTP rendering of the report is tied by correspondence at the "
             "HTTP level; tokens are content-addressed trees (SHA-1 collision-freeness).",
        tech="Python->Lean translation (iter_changes) + Lean 4 algebraic proof of the diff + differential correspondence (all token pairs)",
        ref="5/C07"),
    "C08": dict(
        text="Tag = content-addressed tree: equal tags iff equal versioned contents is proved by map extensionality; "
             "unchanged by non-acknowledged requests (corollary of the C01 refinement); a PUT replaces at most one "
             "collection of the world, so the tag of every other collection is unchanged (C08Http); the harness "
             "recomputes the git tree hash of the observed entries, a Lean monitor compares all pairs of points of "
             "each history, and the tags must not move across restarts nor — for the home sets — at all.",
        note="'contents' includes the versioned metadata file (.xandikos), see DESIGN.md 1.4; SHA-1 collision-freeness.",
        tech="Lean 4 proof over the content-addressed model + all-pairs trace monitor",
        ref="5/C08"),
    "C09": dict(
        text="Invariant proofs by induction over histories: the commit log is append-only (prefix-monotone), a request "
             "adds exactly one commit iff it changes the stored tree, HEAD's tree equals the contents, and for the tree "
             "store working tree = index = HEAD after every request. Tied to /repo by walking the real commit chain "
             "after every step and running git status / git fsck.",
        note="commit objects are modelled as (tree) entries of a list; parents are observed by the harness walking the "
             "chain (single parent, no merge), messages/authors/timestamps are not modelled.",
        tech="Lean 4 invariant proofs + differential correspondence + git CLI audit",
        ref="5/C09"),
    "C10": dict(
        text="The index machinery (AutoIndexManager counters/threshold/reset, MemoryIndex per-etag cache, choice "
             "between the naive and the index-based iteration in Store.iter_with_filter) is modelled as a state "
             "machine parametric in the two evaluators and proved transparent for every history of queries and writes "
             "and every threshold, by induction, provided check_from_indexes agrees with check on the files at hand "
             "(AgreeOn). For iCalendar that proviso is discharged by proof: Ical/Index.lean models index_keys, "
             "_get_index, create_subindexes and the match_indexes family, and check_from_indexes_eq_check proves the "
             "index path equal to the direct one for every well-formed filter (three levels, time ranges, prop/param "
             "filters, text-matches, is-not-defined) on every calendar without repeated components/properties per "
             "name; index_transparent_ical / no_history_is_observable_ical are then unconditional on index state, "
             "history and threshold. nonsimple_paths_differ / full_statement_is_false show the class cannot be "
             "widened to repeated components (recorded findings KF-C10-*). Ties: every query answer of generated "
             "histories (each filter repeated past the threshold, filters interleaved, writes in between, thresholds "
             "0/1/5) is compared with the Lean model of direct evaluation, at the store API and through REPORT on both "
             "front ends; the index-side model is compared with the real index_keys/get_indexes/check_from_indexes on "
             "generated inputs (idxtie.py), and the two real paths with each other on the proved class. "
             "icalendar._unescape_text (an index-scan while loop) is TRANSLATED from /repo on every run into the Except monad with fuel and proved equal to the model on every text (so it raises no IndexError and terminates); the TEXT and CATEGORIES round-trip theorems are restated on the generated code itself. "
             "AutoIndexManager.find_present_keys (nested loops, flag, counters, index.reset) is TRANSLATED as well and proved equal to the model's findPresentKeys.",
        note="partial: outside the class Simple (several components of one type, repeated properties) the two paths "
             "differ — recorded findings; the text round trip through the index (escape by icalendar, un-escape by "
             "xandikos) and vobject/icalendar parsing are parameters validated by correspondence; unparseable stored "
             "files are not generated.",
        tech="Python->Lean translation (_unescape_text loop, find_present_keys) + Lean 4 state-machine proof (history induction) + proved evaluator agreement on a structural class + differential monitors"
             "differential monitors",
        ref="5/C10"),
    "C11": dict(
        text="The four RFC 4791 section 9.9 functions (apply_time_range_vevent/vtodo/vjournal/vfreebusy) are TRANSLATED "
             "from /repo's source on every run (Except-monad Lean preserving Python's evaluation order) and proved equal "
             "to the model, which is proved to decide the RFC tables for all instants and value kinds; the model of the "
             "filter evaluator (comp/prop/param filters, is-not-defined at every level, text-match, prop time-range) is "
             "proved to decide a proposition-level transcription of section 9.7 on every calendar object (three-level "
             "component trees) and every nested filter. Tied to /repo by an exhaustive presence-pattern x value-form x "
             "instant-grid x range-grid run through the real REPORT and by generated nested filters; a differing answer "
             "is a violation because model = RFC is proved.",
        note="component trees/values are what icalendar parses (computed by the harness); XML filter parsing is tied "
             "by correspondence; recurrence (RRULE) is not generated; default zone UTC; the recorded finding "
             "KF-C11-text-match-equality (equality instead of substring) is replayed deterministically; side conditions "
             "of the theorem (VEVENT has DTSTART under a time-range, no time-range on VALARM) are evaluated per query "
             "and queries outside them are counted, not judged.",
        tech="Python->Lean translation + Lean 4 proof against an RFC 4791 spec + exhaustive order-type correspondence",
        ref="5/C11"),
    "C12": dict(
        text="collation._match and the collations table are TRANSLATED from /repo's source on every run and proved equal "
             "to the model; the model of carddav.py's filter evaluation is proved to decide an independent, "
             "proposition-level transcription of RFC 6352 section 10.5 (filter/prop-filter test=anyof|allof, "
             "is-not-defined, text-match x 4 match types x 3 collations x negate, param-filter) for every vCard and "
             "filter, never to raise on supported filters (non-ASCII included), and the report to be the matching "
             "members in order cut at nresults. Tied to /repo by an exhaustive collation grid and generated REPORTs "
             "through both front ends; because model = RFC is proved, any differing answer is a violation.",
        note="vCard structure (names, text values, parameters) is what vobject reports, computed by the harness; the "
             "XML filter parsing inside apply_*_filter is tied by correspondence; only text-valued properties and "
             "upper-case parameter names are generated; i;unicode-casemap is only required to be total and "
             "ASCII-case-insensitive.",
        tech="Python->Lean translation + Lean 4 proof against an RFC 6352 spec + differential correspondence",
        ref="5/C12"),
    "C13": dict(
        text="XandikosBackend._map_to_file_path is TRANSLATED from /repo on every run and proved equal to the model; "
             "for EVERY string relpath the mapped path is proved confined to the root (root or root/clean components, "
             "no '..'), by induction over the component loop of posixpath.normpath (Lean model of normpath/split/join "
             "validated against CPython on 1e5 adversarial paths); member files join a clean name to a confined "
             "collection path. The whole server is audited with sys.addaudithook while adversarial targets are sent "
             "raw to a real aiohttp server and through the WSGI callable, with decoy siblings snapshotted.",
        note="lexical confinement only (no symlinks inside the root; kernel resolution not modelled); C-level file "
             "access without audit events is invisible; the handlers' use of _map_to_file_path is tied by the audit, "
             "not by proof.",
        tech="Python->Lean translation + Lean 4 inductive proof of normpath confinement + audit-hook fault search",
        ref="5/C13"),
    "C14": dict(
        text="Proved on the store model: an invalid body is refused with no state change at all; what is stored is the "
             "normal form; every member of every reachable state validates; re-uploading a served body is a no-op "
             "(same ETag, same tree, no commit) given the library facts norm∘norm = norm and UID preservation, which "
             "are tested on generated bodies, not proved. "
             "The except tables of the write path are TRANSLATED and proved to map InvalidFileContents to the valid-calendar-data precondition on every write path; a round-trip probe uploads what the server serves for recurring / overridden / two-zone / alarm / escaped-text objects after expand, time-range, multiget and sync reports.",
        note="parser correctness is icalendar's/vobject's; validity/normal form/UID are computed by the harness calling "
             "the libraries directly, so a change to xandikos' validate()/normalized() shows as a disagreement.",
        tech="Python->Lean translation (except tables) + Lean 4 proof parametric in the parser + differential correspondence with library oracle",
        ref="5/C14"),
    "C16": dict(
        text="Hrefs are modelled in Lean on top of the urllib/posixpath models (quote, unquote, urlsplit, split): an "
             "emitted href is proved to decode to the path it was built from for every string, to contain no scheme, "
             "query, fragment or space, a member href to split into (collection, name) for every clean name, the POST "
             "Location to decode to collection/name, and a listing to hold exactly the blobs of the tree, each once. "
             "Tied to /repo by predicting the exact text of every href in PROPFIND, query, sync-collection and Location "
             "responses and by dereferencing each as sent through both front ends under three route prefixes. "
             "webdav.ensure_trailing_slash and webdav.traverse_resource (the Depth work list) are TRANSLATED from /repo on every run: Depth 0 is proved to yield exactly the addressed resource, Depth 1 additionally exactly its direct members, each once, under the model's child hrefs; an unknown depth raises.",
        note="the XML serialisation, the front ends' request-target decoding (aiohttp/yarl, the WSGI PATH_INFO "
             "convention) and dulwich's tree listing are exercised, not modelled; names with '/' or control characters "
             "are outside the grammar; route prefixes are ASCII.",
        tech="Python->Lean translation (ensure_trailing_slash, traverse_resource) + Lean 4 proof over a urllib/posixpath model + differential correspondence (href prediction and dereference)",
        ref="5/C16"),
    "C17": dict(
        text="The multiget driver is modelled in Lean (read_href_element, href_to_path, the two loops of "
             "_get_resources_by_hrefs with their insertion-ordered dictionaries, the data properties' supported_on) on "
             "the HTTP world model; proved for every list of hrefs and every world: the response hrefs are a "
             "permutation of the distinct requested hrefs (each exactly once), the answer for an href is a function of "
             "that href alone (independence), data is served only for a member of the right kind and then with the "
             "ETag and body GET serves, everything else is 404/no data, an emitted href reads back as its path, the "
             "mount point is a boundary. Tied to /repo by replaying every multiget of generated histories on the "
             "model, by a by-construction oracle against GET, and by re-asking hrefs alone; both front ends. "
             "webdav.href_to_path and the two loops of webdav._get_resources_by_hrefs (dict.fromkeys, setdefault/append, backend.get_resources) are TRANSLATED from /repo on every run and proved equal to the model's hrefToPathChars / resourcesByHrefs, so the each-href-once and independence theorems hold of the generated code.",
        note="absolute URLs on another host are answered like their path (the code does not know its host name) and "
             "are not judged; XML transport normalises CRLF in the data, compared modulo that; urlsplit's authority "
             "handling is in the model only for ASCII authorities without brackets.",
        tech="Python->Lean translation (href_to_path, _get_resources_by_hrefs) + Lean 4 invariant proof over the request loop + refinement to a per-href spec + differential correspondence",
        ref="5/C17"),
    "C18": dict(
        text="Proved in Lean: create_href with a base decodes to base/ + href for every clean directory base and every "
             "relative path of directory-entry names, whatever their characters (quoted-form urljoin, on the urllib "
             "model); hence current-user-principal decodes to mount-point/ + principal/ for every mount point and "
             "principal path, the home sets decode to principal/calendars/ and principal/contacts/, and each is again a "
             "clean directory, so the Depth 1 member hrefs (C16) apply. On the world model: a start (--defaults, "
             "--autocreate, the wsgi.py start-up) keeps every existing repository with its members, history and "
             "metadata, only adds fresh repositories where nothing was, any sequence of restarts in any mix of modes "
             "preserves the data, and the first --defaults start makes the principal, both home sets, the default "
             "calendar, address book and inbox exist. Tied to /repo by predicting the exact text of every discovery "
             "href and the exact set of repositories (type + metadata bytes) on disk after every start, over front "
             "ends x route prefixes x principal paths x start sequences, with a client that follows only returned hrefs. "
             "The redirect condition of wsgi_helpers.WellknownRedirector.__call__ and WELLKNOWN_DAV_PATHS are TRANSLATED from /repo on every run: both well-known URLs are proved to be redirected for every division of the path between SCRIPT_NAME and PATH_INFO (redirector mounted at the root, at an alias, at the exact URL), and nothing whose normalised path is not one of the two is intercepted; the walk starts from /.well-known under each of the three mounts.",
        note="a principal path whose first segment reads as a URL scheme ('x:y/…') or that lacks the leading '/' is "
             "outside the hypotheses (and outside the property's quantifier): create_href takes it for an absolute "
             "URL / the principal is not recognised; aiohttp's routing and the WSGI server's mounting are exercised, "
             "not modelled.",
        tech="Python->Lean translation (well-known redirect condition, ensure_trailing_slash) + Lean 4 proof over the urllib model (href algebra) + invariant proof over starts + differential correspondence",
        ref="5/C18"),
    "C04": dict(
        text="Partial. The on-disk pieces of one store write and the ordered micro-steps the code performs on them are "
             "modelled in Lean for tree-git, bare-git and vdir (index.lock, in-place working-tree write, loose objects "
             "and refs through lock+rename, pack+idx, reflog, index rename; tmp+replace); proved for every prior state "
             "without dangling references, every operation (create, replace, same bytes, delete; a property is the "
             "member .xandikos or, for vdir, its own file) and every number of completed micro-steps — cuts inside "
             "plain writes included: a newly started server reads the old member set or the new one, nothing else; "
             "every other member is unchanged; no ref or index entry names a missing object; the completed operation "
             "reads as the new state. The in-place metadata write the repair removed is proved NOT atomic (witness). "
             "Tied to /repo by stopping real operations before every file-system mutation (audit hook), copying the "
             "directory, cutting in-place files, and auditing each copy in a fresh process; the recorded event sequence "
             "must equal the model's plan and every crash state's old/new verdict the model's.",
        note="partial: process death with an intact page cache only — power loss (the code never calls fsync), "
             "reordering of directory updates, and crashes inside a single dulwich file-system call are not modelled; "
             "SHA-1 is taken as injective; a stale index.lock left by a crash (later writes answer 'locked') is "
             "counted, not judged — the property does not speak about liveness after the crash.",
        tech="Lean 4 proof over a micro-step crash model + fault enumeration of the real code at every file-system call "
             "with fresh-process audit (correspondence of plan and of every crash state)",
        ref="5/C04"),
    "C05": dict(
        text="Partial. Each store operation is modelled in Lean as the steps between which another writer can get in "
             "(preconditions evaluated / index.lock taken and index read, or current tree read / write), with "
             "schedules interleaving any number of them. Proved: in one server process, where the store's lock makes "
             "an operation one step, every schedule of any operations from any prior state is a sequential execution "
             "(members and every result); across processes, for the tree store and operations without preconditions, "
             "index.lock keeps the write sections apart: every schedule applies the logged writes one after another "
             "and a refused writer changes nothing (invariant proof). Across processes the full statement is false and the Lean file carries the "
             "witnesses (two conditional updates both succeed; a bare-store create is lost; two members share a UID) "
             "— recorded findings. Tied to /repo by stopping real operations at every yield point and running the "
             "other one there (all single-pre-emption schedules of 6-12 operation pairs, both orders), in threads "
             "sharing the store object and in separate processes; every outcome is judged against the real code run "
             "sequentially in every order, and the model must predict results, members and verdict of every schedule. "
             "At the HTTP level the first request's worker is also stopped right after the commit (ref moved, index not rewritten yet), and requests that have nothing to do with the two writers (DELETE / MKCALENDAR / PROPPATCH of another collection, a listing) are answered while it is stopped.",
        note="partial: pre-emption only at the yield points between the phases of an operation (inside a dulwich call "
             "or a rename the operation is taken as atomic), two operations and one pre-emption per schedule; the GIL-free "
             "orderings of C extensions are not explored. The thread-mode theorem rests on the lock of fix 3d6b046 being "
             "held for the whole operation — that is what the thread schedules check on the real code.",
        tech="Lean 4 invariant proof over schedules (thread mode) + Lean counterexamples (process mode) + controlled "
             "scheduling of the real code in threads and processes with a sequential oracle",
        ref="5/C05"),
}

NOT_YET = {}


def main():
    props = [json.loads(l) for l in open(os.path.join(VERIF, "properties.jsonl"))]
    checks = []
    na = []
    for p in props:
        pid = p["id"]
        if pid in CHECKS:
            c = CHECKS[pid]
            checks.append({
                "property_id": pid,
                "quick_cmd": f"./check {pid} --tier quick",
                "thorough_cmd": f"./check {pid} --tier thorough",
                "evidence_file": f"evidence/{pid}.json",
                "replay_cmd_template": f"./check {pid} --replay {{path}}",
                "engine": "lean4-model",
                "level_claimed": {"category": "proof", "text": c["text"], "design_ref": "DESIGN.md " + c["ref"]},
                "level_note": COMMON_NOTE + c["note"],
                "technique": c["tech"],
            })
        else:
            na.append({"property_id": pid, "reason": NOT_YET.get(pid, "check not built yet in this round; planned per DESIGN.md section 5")})
    m = {
        "version": 1,
        "setup_cmd": "./setup.sh",
        "hooks": {
            "guard": "XANDIKOS_VERIF",
            "enable": "no hooks are needed: the harness drives /repo in-process (monkeypatched yield points and sys.addaudithook); XANDIKOS_VERIF is reserved and unused",
            "baseline_off_cmd": "./baseline.sh",
            "source_commits": [],
            "add_only": True,
        },
        "engines": [{
            "name": "lean4-model", "path": "lean",
            "serves_properties": sorted(CHECKS),
            "kind_free_text": "Lean 4 executable models + kernel-checked theorems; Python ast->Lean translator for pure functions; differential correspondence harness (harness/) driving the real code in-process",
        }],
        "checks": checks,
        "not_applicable": na,
        "notes": "See DESIGN.md. known_findings.json lists recorded findings and fixed defects.",
    }
    json.dump(m, open(os.path.join(VERIF, "MANIFEST.json"), "w"), indent=1)


if __name__ == "__main__":
    main()
