"""Writes MANIFEST.json from the table below (kept in one place so it stays valid)."""
import json
import os

VERIF = os.path.dirname(os.path.dirname(os.path.abspath(__file__)))

COMMON_NOTE = ("Trusted: Lean 4.33 kernel (+leanchecker in the thorough tier), axioms propext/Classical.choice/"
               "Quot.sound only, no sorry/axiom/native_decide (grepped and #print-axioms-audited every run); "
               "the theorem statements; the tie between model and /repo: ")

CHECKS = {
    "C01": dict(
        text="Refinement proof: the store model (bare/tree/vdir import_one, delete_one, listing) refines an abstract "
             "map spec on every history (induction over request lists); 'read = last acknowledged write', 'non-ok is a "
             "no-op', 'writes are local' are corollaries. The model is tied to /repo by differential execution of "
             "generated histories on the four real back ends with a full audit after each step, and a Lean spec monitor "
             "judges the implementation trace itself.",
        note="correspondence is sampling (generated + corpus histories), bodies are opaque tokens whose validity/UID/"
             "normal form are computed by calling icalendar/vobject directly; SHA-1/MD5 collision-freeness.",
        tech="Lean 4 refinement proof (induction over histories) + differential correspondence + Lean spec monitor",
        ref="5/C01"),
}

NOT_YET = {}


def main():
    props = [json.loads(l) for l in open(os.path.join(VERIF, "properties.jsonl"))]
    checks = []
    na = []
    for p in props:
        pid = p["id"]
        if pid in CHECKS:
            c = CHECKS[pid]
            checks.append({
                "property_id": pid,
                "quick_cmd": f"./check {pid} --tier quick",
                "thorough_cmd": f"./check {pid} --tier thorough",
                "evidence_file": f"evidence/{pid}.json",
                "replay_cmd_template": f"./check {pid} --replay {{path}}",
                "engine": "lean4-model",
                "level_claimed": {"category": "proof", "text": c["text"], "design_ref": "DESIGN.md " + c["ref"]},
                "level_note": COMMON_NOTE + c["note"],
                "technique": c["tech"],
            })
        else:
            na.append({"property_id": pid, "reason": NOT_YET.get(pid, "check not built yet in this round; planned per DESIGN.md section 5")})
    m = {
        "version": 1,
        "setup_cmd": "./setup.sh",
        "hooks": {
            "guard": "XANDIKOS_VERIF",
            "enable": "no hooks are needed: the harness drives /repo in-process (monkeypatched yield points and sys.addaudithook); XANDIKOS_VERIF is reserved and unused",
            "baseline_off_cmd": "./baseline.sh",
            "source_commits": [],
            "add_only": True,
        },
        "engines": [{
            "name": "lean4-model", "path": "lean",
            "serves_properties": sorted(CHECKS),
            "kind_free_text": "Lean 4 executable models + kernel-checked theorems; Python ast->Lean translator for pure functions; differential correspondence harness (harness/) driving the real code in-process",
        }],
        "checks": checks,
        "not_applicable": na,
        "notes": "See DESIGN.md. known_findings.json lists recorded findings and fixed defects.",
    }
    json.dump(m, open(os.path.join(VERIF, "MANIFEST.json"), "w"), indent=1)


if __name__ == "__main__":
    main()
