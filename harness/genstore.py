"""History-template generators for the store-level driver."""
from bodies import (INVALID_ICAL, INVALID_VCARD, UIDS, gen_ical, gen_vcard, vevent, vcard)

NAMES_ICS = ["a.ics", "b.ics", "c d.ics", "ü.ics", "E.ICS", "my.git.ics", "x.tmp.ics", ".draft.ics"]
NAMES_VCF = ["k.vcf", "l m.vcf"]
NAMES_OTHER = ["notes.txt", "x"]


def gen_template(rng, toks, length, profile="mixed", kind_hint=None):
    """Weighted random walk.  profile: mixed | uid | sync | reupload | cond"""
    names = rng.sample(NAMES_ICS, rng.randint(2, 4))
    if profile == "uid":
        names = rng.sample(NAMES_ICS, rng.randint(3, 4))
    if profile in ("mixed", "sync", "cond"):
        names += [rng.choice(NAMES_VCF)]
    if profile == "mixed" and rng.random() < 0.5:
        names += [rng.choice(NAMES_OTHER)]
    if profile == "sync" and ".draft.ics" not in names and rng.random() < 0.6:
        names[0] = ".draft.ics"         # a dot-named member is a member like any other
    uids = rng.sample(UIDS, 3)
    icals = [toks.tok(gen_ical(rng, uid=rng.choice(uids))) for _ in range(5)]
    cards = [toks.tok(gen_vcard(rng)) for _ in range(2)]
    plains = [toks.tok(b"hello"), toks.tok(b"")]
    nouid = toks.tok(vevent(None, summary="no uid", uidline=False))
    bad_ical = [toks.tok(b) for b in rng.sample(INVALID_ICAL, 3)]
    bad_card = [toks.tok(b) for b in rng.sample(INVALID_VCARD, 2)]
    ops = []
    meta_vals = ["Work", "Work", "Privé ✓", "50% off", "a%%b", "%(color)s", "#ff0000", "x = y", "[sec]", "# no comment",
                 "; neither", "two\nlines", "quote \" q", "7", "a: b"]
    for _ in range(length):
        r = rng.random()
        name = rng.choice(names)
        if profile == "sync" and rng.random() < 0.08:
            # content moves to another name and the old name gets new content: the new member's
            # ETag is one the old listing knew under a different name
            ics = [n for n in names if n.lower().endswith(".ics")]
            if len(ics) >= 2:
                a, b = rng.sample(ics, 2)
                t1, t2 = rng.sample(icals, 2)
                ops += [("put", a, "text/calendar", t1, "none"), ("del", a, "none"), ("put", b, "text/calendar", t1, "none"),
                        ("put", a, "text/calendar", t2, "none")]
                continue
        if profile == "mixed" and rng.random() < 0.05:
            # bytes that are no calendar/card, first stored as an opaque attachment (nothing validates
            # text/plain), then offered under a calendar/card name: the second upload must be refused
            if rng.random() < 0.5:
                bad, target, ct = rng.choice(bad_card), rng.choice(NAMES_VCF), "text/vcard"
            else:
                bad, target, ct = rng.choice(bad_ical), rng.choice(NAMES_ICS), "text/calendar"
            ops += [("put", rng.choice(NAMES_OTHER), rng.choice(["text/plain", "application/octet-stream"]), bad, "none"),
                    ("put", target, ct, bad, "none")]
            continue
        if profile in ("mixed", "uid", "sync", "cond", "meta") and rng.random() < 0.06:
            ops.append(("switch",))       # the other worker of a two-worker deployment takes over
        if profile == "meta" and r < 0.45:
            key = rng.choice(["displayname", "description", "color", "comment", "order"])
            val = rng.choice(meta_vals) if rng.random() < 0.9 else None
            if key == "color" and val is not None:
                val = rng.choice(["#ff0000", "#00ff00aa", "#123456"])
            if key == "order" and val is not None:
                val = rng.choice(["1", "7", "42"])
            if key in ("displayname", "description", "comment") and rng.random() < 0.3:
                # the value another text property was last given
                prev = [o[2] for o in ops if o[0] == "setmeta" and o[1] in ("displayname", "description", "comment")
                        and o[1] != key and o[2] is not None]
                if prev:
                    val = prev[-1]
            ops.append(("setmeta", key, val))
            continue
        if r < 0.55:
            if name.lower().endswith(".ics"):
                ct = rng.choice(["text/calendar", "text/calendar", "text/calendar; charset=utf-8", None])
                pool = icals if rng.random() < 0.85 else bad_ical
                if profile in ("mixed", "uid") and rng.random() < 0.08:
                    # content type and extension disagree: the member is read back by its extension, so it
                    # has to be validated and UID-checked as a calendar object whatever was declared
                    ct = rng.choice(["text/plain", "application/octet-stream", "text/vcard"])
                    pool = icals + icals + plains + [nouid]
            elif name.endswith(".vcf"):
                ct = rng.choice(["text/vcard", None])
                pool = cards if rng.random() < 0.8 else bad_card
            else:
                ct = rng.choice(["text/plain", "application/octet-stream", None])
                pool = plains + icals[:1]
            tok = rng.choice(pool)
            if profile == "cond":
                sel = rng.choice(["none", "cur", "cur", "stale", "other", "bogus"])
            else:
                sel = rng.choice(["none"] * 6 + ["cur", "cur", "stale", "other", "bogus"])
            ops.append(("put", name, ct, tok, sel))
        elif r < 0.75:
            if profile == "cond":
                sel = rng.choice(["none", "cur", "stale", "other", "bogus"])
            else:
                sel = rng.choice(["none"] * 5 + ["cur", "stale", "bogus"])
            ops.append(("del", name, sel))
        elif r < 0.83:
            ops.append(("restart",))
        elif r < 0.95:
            ops.append(("sync", rng.choice(["all", "all", None, "foreign"])))
        else:
            # re-upload what is served (C14): resolved by the executor? keep simple: same token again
            if ops and ops[-1][0] == "put":
                ops.append(ops[-1])
            else:
                ops.append(("restart",))
    return ops
