"""Shared runner for the store-level family (C01 C02 C03 C06 C07 C08 C09 C14)."""
import json
import shutil

from bodies import AttrTable, Tokens
from common import scratch_dir
from genstore import gen_template
from storedrv import KINDS, compare, execute, noeffect_violations, shrink


def run_templates(chk, templates, toks, prefixes, kinds=KINDS, label="store", git_every_step=False):
    """Execute templates on the given back ends, compare with the model, collect verdicts.

    prefixes: monitor verdict prefixes that belong to the calling property (e.g. ("C01:",))."""
    n_dis = 0
    for ti, tmpl in enumerate(templates):
        for kind in kinds:
            attrs = AttrTable(toks)
            root = scratch_dir()
            try:
                lines, notes = execute(kind, tmpl, toks, attrs, root, git_every_step=git_every_step)
            finally:
                shutil.rmtree(root, ignore_errors=True)
            dis, viol = compare(lines)
            chk.traces_validated += 1
            nops = sum(1 for ln in lines if ln.split(" ", 1)[0] in ("put", "del", "changes"))
            chk.count("ops", nops)
            chk.count("lines", len(lines))
            for ln in lines:
                head = ln.split(" ", 1)[0]
                if head in ("put", "del", "changes"):
                    obs = ln.split(" | ", 1)[1].split(" ")[0]
                    chk.count(f"{head}:{obs}")
            key = (kind, tuple(ln for ln in lines if ln.split(" ", 1)[0] in ("put", "del", "restart", "changes")))
            chk.case(hash(key), nontrivial=nops >= 2)
            if ti < 2 and kind == kinds[0]:
                chk.sample({"backend": kind, "ops": [ln for ln in lines if ln.split(" ", 1)[0] in ("put", "del", "restart", "changes")][:12]})
            for note in notes:
                if note.startswith(prefixes) or (not note.startswith("C") and "C08:" in prefixes):
                    chk.violation(note.split(" ")[0] + " " + note.split(" ")[1] + "@" + kind if note.startswith("C") else "C08:ctag-not-tree-hash@" + kind,
                                  note, {"backend": kind, "template": tmpl, "lines": lines})
            for (opi, ln, diff) in noeffect_violations(lines):
                obs = ln.split(" | ", 1)[1].split(" ")[0]
                tag = "C03:refused-conditional-request-changed-state" if obs == "badetag" else \
                    "C01:refused-request-changed-state"
                viol.append((opi, ln, tag + " first difference: " + diff))
            mine = [v for v in viol if v[2].startswith(prefixes)]
            if mine:
                i, ln, verdict = mine[0]
                sig = verdict.split(" ")[0]
                def still(ls):
                    vs = [v[2] for v in compare(ls)[1]]
                    vs += [("C03:refused-conditional-request-changed-state" if l.split(" | ", 1)[1].startswith("badetag")
                            else "C01:refused-request-changed-state") for (_, l, _) in noeffect_violations(ls)]
                    return any(v.startswith(sig) for v in vs)
                small = shrink(kind, tmpl, toks, attrs, still)
                root = scratch_dir()
                try:
                    slines, _ = execute(kind, small, toks, AttrTable(toks), root)
                finally:
                    shutil.rmtree(root, ignore_errors=True)
                chk.violation(f"{sig}@{kind}", f"{verdict} on {kind}",
                              {"level": "store", "backend": kind, "template": small,
                               "bodies": {t: toks.data[t].decode("latin-1") for op in small if op[0] == "put" for t in [op[3]]},
                               "lines": slines})
            if dis:
                n_dis += 1
                i, ln, model = dis[0]
                chk.broke(f"correspondence {label}@{kind}",
                          f"line {i}: impl `{ln}` but model says `{model}`",
                          {"backend": kind, "template": tmpl, "first": ln, "model": model,
                           "bodies": {t: toks.data[t].decode("latin-1") for op in tmpl if op[0] == "put" for t in [op[3]]}})
    return n_dis


def gen_many(chk, toks, n, length, profile):
    return [gen_template(chk.rng, toks, length, profile) for _ in range(n)]


def replay_store(chk, rep, prefixes):
    """Re-run the minimised template of a replay file and print what the monitor says."""
    r = rep.get("replay", rep)
    toks = Tokens()
    tmpl = []
    bodies = r.get("bodies", {})
    remap = {}
    for op in r["template"]:
        op = list(op)
        if op[0] == "put":
            data = bodies[op[3]].encode("latin-1")
            op[3] = toks.tok(data)
        tmpl.append(tuple(op))
    root = scratch_dir()
    try:
        lines, notes = execute(r["backend"], tmpl, toks, AttrTable(toks), root)
    finally:
        shutil.rmtree(root, ignore_errors=True)
    dis, viol = compare(lines)
    mine = [v for v in viol if v[2].startswith(prefixes)]
    for ln in lines:
        print("  " + ln)
    for v in mine:
        print("monitor:", v[2], "at", v[1])
    for d in dis[:3]:
        print("model disagrees:", d[1], "model says", d[2])
    if mine:
        print(f"VIOLATION property={chk.pid} replay=(replayed)")
        return 1
    print("replay: property held")
    return 0
