"""Entry point: ./check Cxx [--tier quick|thorough] [--replay FILE]"""
import argparse
import importlib
import os
import sys

sys.path.insert(0, os.path.dirname(os.path.abspath(__file__)))

import common  # noqa: E402


def main():
    ap = argparse.ArgumentParser()
    ap.add_argument("pid")
    ap.add_argument("--tier", default=os.environ.get("VERIF_TIER") or "quick")
    ap.add_argument("--replay", default=None)
    ap.add_argument("--seed", default=None)
    args = ap.parse_args()
    mod = importlib.import_module("checks." + args.pid)
    chk = common.Check(args.pid, tier=args.tier, seed=args.seed)

    def go():
        common.ensure_driver()
        if args.replay:
            return mod.replay(chk, args.replay)
        mod.run(chk)
        return chk.finish()

    common.main_wrapper(go)


if __name__ == "__main__":
    main()
