"""Launch the stand-alone server exactly as `python -m xandikos` does (xandikos.web.main), with the
library-compatibility shims of the harness loaded first.  Arguments are xandikos' own."""
import argparse
import asyncio
import os
import sys

sys.path.insert(0, os.path.dirname(os.path.abspath(__file__)))
import compat  # noqa: F401,E402
import guard  # noqa: E402
from xandikos import web  # noqa: E402

_d = sys.argv[sys.argv.index("-d") + 1] if "-d" in sys.argv else None
if _d:
    guard.allow(_d)
guard.install(tmp_in=os.path.dirname(os.path.abspath(_d)) if _d else None)

parser = argparse.ArgumentParser()
web.add_parser(parser)
options = parser.parse_args(sys.argv[1:])
asyncio.run(web.main(options, parser))
