"""One store operation in a process of its own, pausing at a yield point (C05, process mode).

usage: conc_worker.py <kind> <path> <op-json> <pause_at|-1>
Prints JSON lines: {"ev":"paused"} when it stops at the yield point (continues on a line on stdin),
{"ev":"done","result":…, "points":[…]} at the end.
"""
import json
import os
import sys

sys.path.insert(0, os.path.dirname(os.path.abspath(__file__)))
import concdrv  # noqa: E402


def main():
    kind, path, op, pause_at = sys.argv[1], sys.argv[2], json.loads(sys.argv[3]), int(sys.argv[4])
    import guard
    guard.allow(path)
    guard.install(tmp_in=os.path.dirname(os.path.abspath(path)))
    concdrv.install()
    store = concdrv.open_store(kind, path)
    points = []

    def ctl(point):
        i = len(points)
        points.append(point)
        if i == pause_at:
            print(json.dumps({"ev": "paused"}), flush=True)
            sys.stdin.readline()

    concdrv._tls.ctl = ctl
    result = concdrv.run_op(store, op)
    print(json.dumps({"ev": "done", "result": result, "points": points}), flush=True)
    try:
        import guard
        guard.cleanup()
    except Exception:
        pass
    os._exit(0)


main()
