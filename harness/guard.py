"""File-system guard for the processes that run the code under test.

The checks drive xandikos with adversarial inputs, and they are also run against deliberately
broken versions of it.  A confinement bug in the code under test must not be able to damage the
machine: every *mutating* file-system call (open for writing, mkdir, rmdir, remove, rename,
rmtree, truncate, chmod, link, symlink) whose path lies outside the directories this process was
given is refused by an audit hook (the hook raises, Python aborts the call).  Refused calls are
recorded in BLOCKED; C13 reports them, the other checks count them in their evidence.

Allowed: the scratch directories created through common.scratch_dir()/guard.allow(), the parts of
/verif the harness itself writes (evidence, replays, Lean build output and generated sources,
byte-code caches), /dev.
"""
import os
import sys
import threading

VERIF = os.path.dirname(os.path.dirname(os.path.abspath(__file__)))
_ALLOWED = []
_WRITE_FLAGS = os.O_WRONLY | os.O_RDWR | os.O_CREAT | os.O_TRUNC | os.O_APPEND
_MUTATING = {"os.mkdir": (0,), "os.rmdir": (0,), "os.remove": (0,), "os.rename": (0, 1), "shutil.rmtree": (0,),
             "os.truncate": (0,), "os.chmod": (0,), "os.chown": (0,), "os.link": (0, 1), "os.symlink": (1,),
             "os.utime": (0,), "shutil.move": (0, 1), "shutil.copyfile": (1,), "os.mkfifo": (0,)}
BLOCKED = []
_tls = threading.local()
_installed = [False]

_STATIC = [os.path.join(VERIF, d) for d in ("evidence", "replays", "lean", "harness", "seeded")] + ["/dev", "/proc/self"]


def allow(path):
    """let this process write below `path`"""
    p = os.path.realpath(path)
    if p not in _ALLOWED:
        _ALLOWED.append(p)
    return path


def _inside(p):
    try:
        ap = os.path.normpath(os.path.join(os.getcwd(), p)) if not os.path.isabs(p) else os.path.normpath(p)
    except Exception:
        return True
    if "__pycache__" in ap:
        return True
    for root in _ALLOWED + _STATIC:
        if ap == root or ap.startswith(root.rstrip(os.sep) + os.sep):
            return True
    # symlink-free check failed; try the resolved path of the parent (e.g. /tmp -> /private/tmp)
    try:
        rp = os.path.realpath(os.path.dirname(ap))
    except Exception:
        return False
    for root in _ALLOWED + _STATIC:
        if rp == root or rp.startswith(root.rstrip(os.sep) + os.sep):
            return True
    return False


class bypass:
    """for the harness's own bookkeeping (creating and removing scratch directories)"""

    def __enter__(self):
        _tls.off = getattr(_tls, "off", 0) + 1

    def __exit__(self, *a):
        _tls.off -= 1


def _hook(event, args):
    if getattr(_tls, "off", 0):
        return
    paths = []
    if event == "open":
        if len(args) >= 3 and isinstance(args[2], int) and (args[2] & _WRITE_FLAGS) and isinstance(args[0], (str, bytes)):
            paths = [args[0]]
        elif len(args) >= 2 and isinstance(args[1], str) and any(c in args[1] for c in "wax+") and isinstance(args[0], (str, bytes)):
            paths = [args[0]]
    else:
        idx = _MUTATING.get(event)
        if idx is None:
            return
        paths = [args[i] for i in idx if i < len(args) and isinstance(args[i], (str, bytes))]
        # calls relative to a directory descriptor (shutil.rmtree walks that way)
        fds = {"os.remove": (1,), "os.rmdir": (1,), "os.mkdir": (2,), "os.rename": (2, 3)}.get(event, ())
        dirs = [args[i] for i in fds if i < len(args)]
        if dirs and any(isinstance(fd, int) and fd >= 0 for fd in dirs):
            resolved = []
            for j, p in enumerate(paths):
                fd = dirs[j] if j < len(dirs) else None
                p = os.fsdecode(p)
                if isinstance(fd, int) and fd >= 0 and not os.path.isabs(p):
                    try:
                        p = os.path.join(os.readlink("/proc/self/fd/%d" % fd), p)
                    except OSError:
                        pass
                resolved.append(p)
            paths = resolved
    for p in paths:
        p = os.fsdecode(p)
        if not _inside(p):
            BLOCKED.append((event, p))
            raise PermissionError("verification guard: %s(%r) outside the directories of this check" % (event, p))


def install(tmp_in=None):
    """tmp_in: directory in which to put this process's temporary directory (a child process passes the
    scratch directory its parent will remove)"""
    if not _installed[0]:
        _installed[0] = True
        # temporary files of this process (tempfile users in the libraries) go to a directory of its own
        import atexit
        import shutil
        import tempfile
        with bypass():
            base = tmp_in if tmp_in and os.path.isdir(tmp_in) else os.environ.get("TMPDIR", "/tmp")
            d = tempfile.mkdtemp(prefix="xv-tmp-", dir=base)
        allow(d)
        tempfile.tempdir = d

        def _cleanup():
            with bypass():
                shutil.rmtree(d, ignore_errors=True)
        _cleanups.append(_cleanup)
        atexit.register(_cleanup)
        sys.addaudithook(_hook)


_cleanups = []


def cleanup():
    """remove the process's temporary directory (for exits through os._exit)"""
    for c in _cleanups:
        c()
