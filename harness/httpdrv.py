"""HTTP-level drivers for the two front ends of xandikos.

* `WsgiServer`   — calls `XandikosApp.__call__` (the WSGI callable) with a PEP-3333 faithful
                   environ (PATH_INFO percent-decoded and re-decoded as latin-1, SCRIPT_NAME =
                   mount point).
* `AioServer`    — starts the real aiohttp application (same routing as `xandikos.web.main`)
                   on 127.0.0.1:<ephemeral> in a background thread and talks to it over a raw
                   socket, so that un-normalised request targets reach the handler as sent.

Both expose `request(method, target, headers=None, body=b"") -> Resp` where `target` is the
raw request-target (already percent-encoded, as a client would send it), relative to the host.
"""
import asyncio
import io
import os
import socket
import threading
import urllib.parse
import wsgiref.util
import xml.etree.ElementTree as ET

import compat  # noqa: F401


class Resp:
    def __init__(self, status, headers, body):
        self.status = status
        self.headers = headers  # list of (name, value)
        self.body = body

    def header(self, name):
        for k, v in self.headers:
            if k.lower() == name.lower():
                return v
        return None

    def __repr__(self):
        return f"<Resp {self.status} {self.headers!r} {self.body[:200]!r}>"


def clear_store_cache(fn):
    """a new server process has no cached store objects; the cache may be wrapped differently in the
    code under test (functools caches expose cache_clear, possibly on an inner function)"""
    seen = set()
    while fn is not None and id(fn) not in seen:
        seen.add(id(fn))
        cc = getattr(fn, "cache_clear", None)
        if cc is not None:
            cc()
        for cell in (getattr(fn, "__closure__", None) or ()):
            try:
                inner = cell.cell_contents
            except ValueError:
                continue
            if callable(inner) and hasattr(inner, "cache_clear"):
                inner.cache_clear()
        fn = getattr(fn, "__wrapped__", None)


def make_backend(root, principal="/user/", autocreate=True, defaults=True, index_threshold=None):
    from xandikos.web import XandikosApp, XandikosBackend, open_store_from_path

    clear_store_cache(open_store_from_path)
    backend = XandikosBackend(root, index_threshold=index_threshold)
    backend._mark_as_principal(principal)
    if autocreate or defaults:
        if not os.path.isdir(root):
            os.makedirs(root)
        backend.create_principal(principal, create_defaults=defaults)
    app = XandikosApp(backend, current_user_principal=principal)
    return backend, app


class WsgiServer:
    frontend = "wsgi"

    def __init__(self, root, prefix="/", principal="/user/", autocreate=True, defaults=True,
                 index_threshold=None):
        self.root = root
        self.prefix = prefix if prefix.endswith("/") else prefix + "/"
        self.script_name = self.prefix.rstrip("/")
        self.kw = dict(principal=principal, autocreate=autocreate, defaults=defaults,
                       index_threshold=index_threshold)
        self.backend, self.app = make_backend(root, **self.kw)

    def restart(self):
        self.backend, self.app = make_backend(self.root, **self.kw)

    def close(self):
        pass

    def request(self, method, target, headers=None, body=b""):
        headers = dict(headers or {})
        path, _, query = target.partition("?")
        if self.script_name and not (path == self.script_name or path.startswith(self.script_name + "/")):
            return Resp(404, [], b"outside the mount point")
        path_info_raw = path[len(self.script_name):]
        # what a WSGI server does: percent-decode to bytes, then decode as latin-1
        path_info = urllib.parse.unquote_to_bytes(path_info_raw).decode("latin-1")
        environ = {
            "REQUEST_METHOD": method,
            "SCRIPT_NAME": self.script_name,
            "PATH_INFO": path_info,
            "QUERY_STRING": query,
            "SERVER_NAME": "localhost",
            "SERVER_PORT": "80",
            "SERVER_PROTOCOL": "HTTP/1.1",
            "wsgi.version": (1, 0),
            "wsgi.url_scheme": "http",
            "wsgi.input": io.BytesIO(body),
            "wsgi.errors": io.StringIO(),
            "wsgi.multithread": False,
            "wsgi.multiprocess": False,
            "wsgi.run_once": False,
            "CONTENT_LENGTH": str(len(body)),
        }
        for k, v in headers.items():
            if k.lower() == "content-type":
                environ["CONTENT_TYPE"] = v
            elif k.lower() == "content-length":
                environ["CONTENT_LENGTH"] = v
            else:
                environ["HTTP_" + k.upper().replace("-", "_")] = v
        if "HTTP_HOST" not in environ:
            environ["HTTP_HOST"] = "localhost"
        out = {}

        def start_response(status, hdrs, exc_info=None):
            out["status"] = status
            out["headers"] = hdrs

        try:
            chunks = self.app(environ, start_response)
            data = b"".join(chunks)
        except Exception as e:  # an unhandled exception is a 500 from the WSGI server
            return Resp(500, [], ("unhandled " + type(e).__name__ + ": " + str(e)).encode())
        status = int(out["status"].split(" ", 1)[0])
        return Resp(status, list(out["headers"]), data)


class AioServer:
    frontend = "aiohttp"

    def __init__(self, root, prefix="/", principal="/user/", autocreate=True, defaults=True,
                 index_threshold=None):
        self.root = root
        self.prefix = prefix if prefix.endswith("/") else prefix + "/"
        self.kw = dict(principal=principal, autocreate=autocreate, defaults=defaults,
                       index_threshold=index_threshold)
        self.loop = None
        self.thread = None
        self.port = None
        self._start()

    def _start(self):
        from aiohttp import web

        self.backend, self.main_app = make_backend(self.root, **self.kw)
        ready = threading.Event()
        prefix = self.prefix

        def run():
            loop = asyncio.new_event_loop()
            asyncio.set_event_loop(loop)
            self.loop = loop

            async def xandikos_handler(request):
                return await self.main_app.aiohttp_handler(request, prefix)

            from xandikos.web import WELLKNOWN_DAV_PATHS, RedirectDavHandler

            app = web.Application()
            for path in WELLKNOWN_DAV_PATHS:
                app.router.add_route("*", path, RedirectDavHandler(prefix).__call__)
            if prefix.strip("/"):
                xapp = web.Application()
                xapp.router.add_route("*", "/{path_info:.*}", xandikos_handler)

                async def redirect_to_subprefix(request):
                    return web.HTTPFound(prefix)

                app.router.add_route("*", "/", redirect_to_subprefix)
                app.add_subapp(prefix, xapp)
            else:
                app.router.add_route("*", "/{path_info:.*}", xandikos_handler)

            async def boot():
                self.runner = web.AppRunner(app)
                await self.runner.setup()
                sock = socket.socket(socket.AF_INET, socket.SOCK_STREAM)
                sock.setsockopt(socket.SOL_SOCKET, socket.SO_REUSEADDR, 1)
                sock.bind(("127.0.0.1", 0))
                self.port = sock.getsockname()[1]
                site = web.SockSite(self.runner, sock)
                await site.start()
                ready.set()

            loop.run_until_complete(boot())
            loop.run_forever()
            loop.run_until_complete(self.runner.cleanup())
            loop.close()

        self.thread = threading.Thread(target=run, daemon=True)
        self.thread.start()
        if not ready.wait(20):
            raise RuntimeError("aiohttp server did not start")

    def _stop(self):
        if self.loop is not None:
            self.loop.call_soon_threadsafe(self.loop.stop)
            self.thread.join(20)
            self.loop = None

    def restart(self):
        self._stop()
        self._start()

    def close(self):
        self._stop()

    def request(self, method, target, headers=None, body=b""):
        headers = dict(headers or {})
        headers.setdefault("Host", "localhost")
        headers["Content-Length"] = str(len(body))
        headers["Connection"] = "close"
        req = (f"{method} {target} HTTP/1.1\r\n" + "".join(f"{k}: {v}\r\n" for k, v in headers.items())
               + "\r\n").encode("latin-1") + body
        s = socket.create_connection(("127.0.0.1", self.port), timeout=30)
        try:
            self._n = getattr(self, "_n", 0) + 1
            if len(body) > 8 and self._n % 3 == 0:
                # every third entity reaches the server in several pieces, as bodies do on a network
                import time
                s.setsockopt(socket.IPPROTO_TCP, socket.TCP_NODELAY, 1)
                cut1 = len(req) - len(body) + len(body) // 3
                cut2 = len(req) - len(body) + 2 * len(body) // 3
                for part in (req[:cut1], req[cut1:cut2], req[cut2:]):
                    s.sendall(part)
                    time.sleep(0.004)
            else:
                s.sendall(req)
            data = b""
            while True:
                chunk = s.recv(65536)
                if not chunk:
                    break
                data += chunk
        finally:
            s.close()
        head, _, rest = data.partition(b"\r\n\r\n")
        lines = head.decode("latin-1").split("\r\n")
        try:
            status = int(lines[0].split(" ")[1])
        except Exception:
            return Resp(0, [], data)
        hdrs = []
        for ln in lines[1:]:
            k, _, v = ln.partition(":")
            hdrs.append((k.strip(), v.strip()))
        r = Resp(status, hdrs, rest)
        te = r.header("Transfer-Encoding")
        if te and "chunked" in te.lower():
            r.body = _dechunk(rest)
        return r


def _dechunk(data):
    out = b""
    while data:
        line, _, data = data.partition(b"\r\n")
        try:
            n = int(line.split(b";")[0], 16)
        except ValueError:
            break
        if n == 0:
            break
        out += data[:n]
        data = data[n + 2:]
    return out


class WsgiModuleServer(WsgiServer):
    """The deployment of xandikos/wsgi.py: the module is executed with XANDIKOSPATH,
    CURRENT_USER_PRINCIPAL and AUTOCREATE set (it creates the principal only when it does not
    resolve yet), wrapped in wsgi_helpers.WellknownRedirector as the uwsgi examples do."""
    frontend = "wsgi-module"

    def __init__(self, root, prefix="/", principal="/user/", autocreate=True, defaults=True,
                 index_threshold=None):
        self.root = root
        self.prefix = prefix if prefix.endswith("/") else prefix + "/"
        self.script_name = self.prefix.rstrip("/")
        self.kw = dict(principal=principal, autocreate=autocreate, defaults=defaults)
        self.restart()

    def restart(self):
        import runpy
        from xandikos.web import open_store_from_path
        from xandikos.wsgi_helpers import WellknownRedirector
        clear_store_cache(open_store_from_path)
        env = {"XANDIKOSPATH": self.root, "CURRENT_USER_PRINCIPAL": self.kw["principal"],
               "AUTOCREATE": "defaults" if self.kw["defaults"] else ("yes" if self.kw["autocreate"] else "no")}
        old = {k: os.environ.get(k) for k in env}
        os.environ.update(env)
        try:
            ns = runpy.run_module("xandikos.wsgi", run_name="xandikos.wsgi")
        finally:
            for k, v in old.items():
                if v is None:
                    os.environ.pop(k, None)
                else:
                    os.environ[k] = v
        self.backend = ns["backend"]
        self.app = WellknownRedirector(ns["app"], self.prefix)

    # how the container splits a well-known URL between SCRIPT_NAME and PATH_INFO: the redirector
    # mounted at the server root ("root": SCRIPT_NAME "", PATH_INFO the whole path), at an alias for
    # /.well-known ("alias": SCRIPT_NAME "/.well-known", PATH_INFO "/caldav") or at the exact URL
    # ("exact": SCRIPT_NAME the whole path, PATH_INFO "")
    wellknown_mount = "root"

    def request(self, method, target, headers=None, body=b""):
        path = target.split("?")[0]
        if path.startswith("/.well-known/"):
            saved = self.script_name
            self.script_name = {"root": "", "alias": "/.well-known", "exact": path}[self.wellknown_mount]
            try:
                return super().request(method, target, headers, body)
            finally:
                self.script_name = saved
        return super().request(method, target, headers, body)


class MainServer(AioServer):
    """The stand-alone server started the way `python -m xandikos` starts it: xandikos.web.main()
    in a process of its own (run_main.py), killed for a restart."""
    frontend = "main"

    def __init__(self, root, prefix="/", principal="/user/", autocreate=True, defaults=True,
                 index_threshold=None):
        self.root = root
        self.raw_prefix = prefix           # handed to --route-prefix as the administrator wrote it
        self.prefix = prefix if prefix.endswith("/") else prefix + "/"
        self.kw = dict(principal=principal, autocreate=autocreate, defaults=defaults)
        self.proc = None
        self.port = None
        self._start()

    def _start(self):
        import subprocess
        import time
        s = socket.socket(socket.AF_INET, socket.SOCK_STREAM)
        s.bind(("127.0.0.1", 0))
        self.port = s.getsockname()[1]
        s.close()
        args = ["/venv/bin/python", os.path.join(os.path.dirname(os.path.abspath(__file__)), "run_main.py"),
                "-d", self.root, "--port", str(self.port), "--listen-address", "127.0.0.1",
                "--route-prefix", self.raw_prefix, "--current-user-principal", self.kw["principal"],
                "--no-detect-systemd"]
        if self.kw["defaults"]:
            args.append("--defaults")
        elif self.kw["autocreate"]:
            args.append("--autocreate")
        self.proc = subprocess.Popen(args, stdout=subprocess.DEVNULL, stderr=subprocess.PIPE)
        deadline = time.time() + 30
        while time.time() < deadline:
            if self.proc.poll() is not None:
                raise RuntimeError("xandikos.web.main exited: " + self.proc.stderr.read().decode("utf-8", "replace")[-800:])
            try:
                c = socket.create_connection(("127.0.0.1", self.port), timeout=0.5)
                c.close()
                return
            except OSError:
                time.sleep(0.05)
        raise RuntimeError("xandikos.web.main did not start listening")

    def _stop(self):
        if self.proc is not None:
            self.proc.kill()
            self.proc.wait(20)
            try:
                self.proc.stderr.close()
            except Exception:
                pass
            self.proc = None


def make_server(frontend, root, **kw):
    if frontend == "main":
        kw.pop("index_threshold", None)
        return MainServer(root, **kw)
    if frontend == "wsgi-module":
        kw.pop("index_threshold", None)
        return WsgiModuleServer(root, **kw)
    return WsgiServer(root, **kw) if frontend == "wsgi" else AioServer(root, **kw)


# ---------------------------------------------------------------------------
# response canonicalisation

DAV = "{DAV:}"


def parse_multistatus(body):
    """-> list of dicts {href, status, props: {tag: (status, text-or-element)}} or None."""
    try:
        root = ET.fromstring(body)
    except ET.ParseError:
        return None
    if root.tag != DAV + "multistatus":
        return None
    out = []
    for resp in root.findall(DAV + "response"):
        href = resp.find(DAV + "href")
        st = resp.find(DAV + "status")
        item = {"href": href.text if href is not None else None,
                "status": st.text.split(" ")[1] if st is not None and st.text else None,
                "props": {}, "error": None}
        err = resp.find(DAV + "error")
        if err is not None and len(err):
            item["error"] = err[0].tag
        for ps in resp.findall(DAV + "propstat"):
            pst = ps.find(DAV + "status")
            code = pst.text.split(" ")[1] if pst is not None and pst.text else None
            prop = ps.find(DAV + "prop")
            if prop is not None:
                for el in prop:
                    item["props"][el.tag] = (code, el)
        out.append(item)
    tok = root.find(DAV + "sync-token")
    return out, (tok.text if tok is not None else None)


def outcome_class(resp: Resp):
    """Canonical outcome of a write request (DESIGN.md 1.1)."""
    s = resp.status
    if s in (200, 201, 204):
        return "ok"
    if s == 207:
        ms = parse_multistatus(resp.body)
        if ms:
            items, _ = ms
            for it in items:
                if it["status"] in ("412", "403", "409"):
                    return "refused:" + (it["error"] or it["status"])
                if it["status"] == "404":
                    return "notfound"
            return "ok"
        return "error"
    if s == 412:
        return "precondition"
    if s == 404:
        return "notfound"
    if s == 405:
        return "notallowed"
    if s == 423:
        return "locked"
    if s == 409:
        return "conflict"
    if s == 304:
        return "notmodified"
    if s >= 500:
        return "error5xx"
    return "other:%d" % s
