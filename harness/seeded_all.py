"""Re-run every filed mutation against its property's check (regression of the detection matrix)."""
import json, os, sys, glob
sys.path.insert(0, os.path.dirname(os.path.abspath(__file__)))
import seeded

VERIF = os.path.dirname(os.path.dirname(os.path.abspath(__file__)))
tier = sys.argv[1] if len(sys.argv) > 1 else "quick"
only = sys.argv[2:] 
bad = []
for d in sorted(glob.glob(os.path.join(VERIF, "seeded", "*"))):
    name = os.path.basename(d)
    if only and name not in only:
        continue
    pid = name.split("-")[0]
    det = seeded.detect(d, [pid], tier, quiet=True) if "quiet" in seeded.detect.__code__.co_varnames else seeded.detect(d, [pid], tier)
    meta = json.load(open(os.path.join(d, "meta.json")))
    meta["detection"] = {k: {"exit": v["exit"], "lines": [l[:300] for l in v["lines"][:6]]} for k, v in det.items()}
    json.dump(meta, open(os.path.join(d, "meta.json"), "w"), indent=1)
    ex = det[pid]["exit"]
    print("SUMMARY", name, "exit", ex, flush=True)
    if ex != 1:
        bad.append(name)
print("NOT DETECTED:", bad)
