"""Controlled interleaving of store operations (C05).

Yield points are wrapped around the places where another writer can observe or change the store
between two phases of an operation (no change to /repo: the wrappers are installed from here):
   check        GitStore._check_duplicate returned (UID and ETag preconditions evaluated)
   before-lock  about to take index.lock (tree store; for delete_one its own ETag check is done)
   locked       locked_index.__enter__ returned (tree store: index.lock held, index read)
   tree-read    BareGitStore._get_current_tree returned inside _import_one/delete_one
   commit       just before _commit_tree (objects written, ref/index not yet)
   committed    _commit_tree returned (the ref has moved; tree store: index.lock is still held and the
                index file is not rewritten yet)
An operation runs in a worker (a thread of this process, or a process of its own); the
controller lets worker A run up to its i-th yield point, then runs worker B to completion (or
until it is seen to block), then lets A finish.  Every i is explored: all single-pre-emption
schedules of two operations.
"""
import json
import os
import subprocess
import sys
import threading

import compat  # noqa: F401

HERE = os.path.dirname(os.path.abspath(__file__))

_tls = threading.local()
_installed = [False]


GLOBAL_CTL = [None]      # controller for threads we do not create ourselves (the server's workers)


def _yield(point):
    ctl = getattr(_tls, "ctl", None)
    if ctl is None:
        ctl = GLOBAL_CTL[0]
    if ctl is not None:
        ctl(point)


class PauseFirst:
    """global controller: the first thread that reaches its `pause_at`-th yield point stops there
    until released (or for at most `limit` seconds); every other thread runs through"""

    def __init__(self, pause_at, limit=10.0):
        self.pause_at, self.limit = pause_at, limit
        self.lock = threading.Lock()
        self.owner = None
        self.count = 0
        self.points = []
        self.paused = threading.Event()
        self.go = threading.Event()

    def __call__(self, point):
        me = threading.get_ident()
        with self.lock:
            if self.owner is None:
                self.owner = me
            if self.owner != me:
                return
            i = self.count
            self.count += 1
            self.points.append(point)
        if self.pause_at is not None and i == self.pause_at:
            self.paused.set()
            self.go.wait(self.limit)


def install():
    """wrap the yield points (idempotent)"""
    if _installed[0]:
        return
    _installed[0] = True
    from xandikos.store import git as g

    orig_check = g.GitStore._check_duplicate

    def check(self, uid, name, replace_etag):
        r = orig_check(self, uid, name, replace_etag)
        _yield("check")
        return r
    g.GitStore._check_duplicate = check

    orig_init = g.locked_index.__init__

    def init(self, path):
        _yield("before-lock")
        orig_init(self, path)
    g.locked_index.__init__ = init

    orig_enter = g.locked_index.__enter__

    def enter(self):
        r = orig_enter(self)
        _yield("locked")
        return r
    g.locked_index.__enter__ = enter

    orig_tree = g.BareGitStore._get_current_tree

    def get_tree(self):
        r = orig_tree(self)
        if getattr(_tls, "in_write", 0):
            _yield("tree-read")
        return r
    g.BareGitStore._get_current_tree = get_tree

    for cls in (g.BareGitStore, g.TreeGitStore):
        orig_commit = cls._commit_tree

        def commit(self, *a, _orig=orig_commit, **kw):
            _yield("commit")
            r = _orig(self, *a, **kw)
            _yield("committed")
            return r
        cls._commit_tree = commit

        for meth in ("_import_one", "delete_one"):
            orig = getattr(cls, meth)

            def wrapped(self, *a, _orig=orig, **kw):
                _tls.in_write = getattr(_tls, "in_write", 0) + 1
                try:
                    return _orig(self, *a, **kw)
                finally:
                    _tls.in_write -= 1
            setattr(cls, meth, wrapped)


def open_store(kind, path):
    from xandikos.icalendar import ICalendarFile
    from xandikos.vcard import VCardFile
    from xandikos.store.git import GitStore
    s = GitStore.open_from_path(path)
    s.load_extra_file_handler(ICalendarFile)
    s.load_extra_file_handler(VCardFile)
    return s


def run_op(store, op):
    """op = ["put", name, ctype, data(str), replace_etag|None] | ["del", name, etag|None] -> result"""
    try:
        if op[0] == "put":
            name, etag = store.import_one(op[1], op[2], [op[3].encode("utf-8")], replace_etag=op[4])
            return ["ok", etag]
        store.delete_one(op[1], etag=op[2])
        return ["ok", None]
    except Exception as e:
        return ["err", type(e).__name__]


def contents(store):
    out = {}
    for name, ctype, etag in store.iter_with_etag():
        out[name] = etag
    return out


class Worker:
    """one operation in a thread, pausing at its `pause_at`-th yield point (None: never)"""

    def __init__(self, store, op, pause_at=None):
        self.store, self.op, self.pause_at = store, op, pause_at
        self.points = []
        self.paused = threading.Event()
        self.go = threading.Event()
        self.done = threading.Event()
        self.result = None
        self.thread = threading.Thread(target=self._run, daemon=True)

    def _ctl(self, point):
        i = len(self.points)
        self.points.append(point)
        if self.pause_at is not None and i == self.pause_at:
            self.paused.set()
            self.go.wait(30)

    def _run(self):
        _tls.ctl = self._ctl
        try:
            self.result = run_op(self.store, self.op)
        finally:
            _tls.ctl = None
            self.done.set()
            self.paused.set()

    def start(self):
        self.thread.start()


def thread_schedule(store_a, store_b, op_a, op_b, pause_at, block_timeout=0.25):
    """A runs to its pause_at-th yield point, B runs (to completion or until it blocks), A resumes.
    -> dict(results=[ra, rb], order=[..completion order..], a_points, b_blocked)"""
    install()
    a = Worker(store_a, op_a, pause_at)
    b = Worker(store_b, op_b, None)
    a.start()
    a.paused.wait(30)
    order = []
    if a.done.is_set():
        order.append("A")
    b.start()
    b_blocked = not b.done.wait(block_timeout)
    if not b_blocked:
        order.append("B")
    a.go.set()
    a.done.wait(60)
    if "A" not in order:
        order.append("A")
    b.done.wait(60)
    if "B" not in order:
        order.append("B")
    return {"results": [a.result, b.result], "order": order, "a_points": a.points, "b_blocked": b_blocked}


def thread_schedule_n(store, ops, pause_at, block_timeout=0.25):
    """ops[0] runs to its pause_at-th yield point; ops[1:] are started one after the other while it
    is stopped (each runs to completion or blocks); ops[0] resumes; everybody finishes.
    -> dict(results=[…], order=[indices in completion order])"""
    install()
    ws = [Worker(store, ops[0], pause_at)] + [Worker(store, op, None) for op in ops[1:]]
    order = []
    lock = threading.Lock()

    def watch(i):
        ws[i].done.wait(90)
        with lock:
            order.append(i)
    watchers = [threading.Thread(target=watch, args=(i,), daemon=True) for i in range(len(ws))]
    ws[0].start()
    watchers[0].start()
    ws[0].paused.wait(30)
    for i in range(1, len(ws)):
        ws[i].start()
        watchers[i].start()
        ws[i].done.wait(block_timeout)
    ws[0].go.set()
    for t in watchers:
        t.join(100)
    return {"results": [w.result for w in ws], "order": list(order), "a_points": ws[0].points}


# ---------------------------------------------------------------------------------------------
# process mode: each operation in a process of its own (conc_worker.py), same yield points

class ProcWorker:
    def __init__(self, kind, path, op, pause_at):
        self.p = subprocess.Popen(["/venv/bin/python", os.path.join(HERE, "conc_worker.py"), kind, path,
                                   json.dumps(op), "-1" if pause_at is None else str(pause_at)],
                                  stdin=subprocess.PIPE, stdout=subprocess.PIPE, stderr=subprocess.PIPE, text=True)
        self.result = None
        self.points = []

    def wait_paused_or_done(self):
        """-> "paused" | "done" """
        while True:
            line = self.p.stdout.readline()
            if not line:
                self.result = ["err", "worker died: " + self.p.stderr.read()[-300:]]
                return "done"
            msg = json.loads(line)
            if msg["ev"] == "point":
                self.points.append(msg["point"])
            elif msg["ev"] == "paused":
                return "paused"
            elif msg["ev"] == "done":
                self.result = msg["result"]
                self.points = msg["points"]
                return "done"

    def resume(self):
        try:
            self.p.stdin.write("go\n")
            self.p.stdin.flush()
        except Exception:
            pass

    def finish(self):
        if self.result is None:
            self.wait_paused_or_done()
        try:
            self.p.stdin.close()
        except Exception:
            pass
        self.p.wait(30)
        for f in (self.p.stdout, self.p.stderr):
            try:
                f.close()
            except Exception:
                pass


def process_schedule(kind, path, op_a, op_b, pause_at):
    a = ProcWorker(kind, path, op_a, pause_at)
    st = a.wait_paused_or_done()
    order = ["A"] if st == "done" else []
    b = ProcWorker(kind, path, op_b, None)
    b.wait_paused_or_done()       # B never pauses: runs to completion (a file lock makes it fail, not wait)
    order.append("B")
    if st == "paused":
        a.resume()
        a.wait_paused_or_done()
        order.append("A")
    a.finish()
    b.finish()
    return {"results": [a.result, b.result], "order": order, "a_points": a.points, "b_blocked": False}
