#!/bin/sh
# Offline build of the Lean library (models, theorems) and the native model drivers.
set -e
DIR=$(cd "$(dirname "$0")" && pwd)
cd "$DIR/lean"
/venv/bin/python "$DIR/harness/translate.py" --all 2>/dev/null || true
lake build
# every theorem module (the checks build their own module again; this warms the cache)
MODS=$(ls Xandikos/Theorems/*.lean | sed 's#/#.#g; s#\.lean$##')
lake build xdriver xjdriver xgdriver $MODS
