#!/bin/sh
# Offline build of the Lean library (models, theorems) and the native model driver.
set -e
DIR=$(cd "$(dirname "$0")" && pwd)
cd "$DIR/lean"
/venv/bin/python "$DIR/harness/translate.py" --all 2>/dev/null || true
lake build
